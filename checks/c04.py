"""C04 - header line grammar: parsing inverts formatting under any padding."""
from hypothesis import strategies as st

from vlib import canon, lastext, strategies as S
from vlib.api import Enum, Hyp, Outcome, attempt, is_raised
from vlib.filecheck import compare_with_expected, read_spec, spec_summary

ID = "C04"
LEVEL = "exploration"
RULE = ("case = (mnemonic, unit, value, description) drawn over letters, digits, punctuation, quotes, brackets, "
        "non-ASCII letters (empty allowed except the mnemonic), six paddings from {none, blank, blanks, tab, mixed}, "
        "section kind in {Version, Well, Curves, Parameter, custom, none}; the line is formatted as "
        "MNEM .UNIT VALUE : DESCR and given to read_header_line(line, section_name); oracle: the parse equals the "
        "four generated fields exactly (inverse oracle). Special forms: all 24x60 clock times x seconds x date "
        "placement (enumerated), ~Parameter descriptions with colons, lines without a period, numeric unit + one "
        "blank. The same lines are also read inside whole files (versions 1.2, 2.0 and 3.0 with ordinary titles, three mnemonic_case modes) "
        "and compared with the expected items. Non-trivial: >= 2 non-empty fields besides the mnemonic and >= 1 "
        "non-minimal padding, or a special form.")
ASSUMPTIONS = [
    "fields are conformant: mnemonic without '.'/':' and not starting with '#'/'~'; unit without whitespace or '..', "
    "not starting/ending with '.', not purely numeric (except the documented `1000 lbf` form), not bracketed; the "
    "field after the separating colon has no ':' outside ~Parameter; ~Curves lines carry no '..' before the last colon",
    "in ~Parameter, when the value is a clock time or the description contains colons, the separating colon is set "
    "off by a blank on both sides (as the property states)",
]

SECTION_NAME = {"V": "Version", "W": "Well", "C": "Curves", "P": "Parameter", "X": "~Tops Section", "N": None}
MINIMAL_PADS = {"", " "}


def render(case):
    ln = dict(case["line"])
    return lastext.render_line(ln, case["kind"], False)


def expected_fields(case):
    ln = case["line"]
    if ln["t"] == "np":
        return dict(name=ln["m"], unit="", value=ln["v"], descr="")
    return dict(name=ln["m"], unit=ln["u"], value=ln["v"], descr=ln["d"])


def oracle(case):
    if "spec" in case:
        return oracle_file(case)
    import lasio.reader as R

    out = Outcome()
    text = render(case)
    exp = expected_fields(case)
    kind = case["kind"]
    form = case.get("form", "plain")
    out.cls("kind-" + kind, "form-" + form)
    ln = case["line"]
    nonempty = sum(1 for k in ("u", "v", "d") if ln.get(k))
    out.nontrivial = form != "plain" or (nonempty >= 2 and any(p not in MINIMAL_PADS for p in ln.get("p", [])))
    out.sample = dict(line=text, section=SECTION_NAME[kind], expected=exp)
    if not hasattr(R, "read_header_line"):
        from vlib.api import HarnessError
        raise HarnessError("C04 observes lasio.reader.read_header_line directly; it is not there any more: adapt the check")
    got = attempt(R.read_header_line, text, section_name=SECTION_NAME[kind])
    if is_raised(got):
        out.fail("line-raises|%s|%s|%s" % (form, kind, got.type), "read_header_line(%r, section_name=%r) raised %s; expected %r"
                 % (text, SECTION_NAME[kind], got, exp))
        return out
    bad = [k for k in ("name", "unit", "value", "descr") if got.get(k) != exp[k]]
    if bad:
        out.fail("line-field|%s|%s|%s" % (form, "P" if kind == "P" else "C" if kind == "C" else "other", bad[0]),
                 "line %r in section %r\n parsed   %r\n expected %r" % (text, SECTION_NAME[kind], got, exp))
    return out


# ---------------------------------------------------------------------------------------
# generators

KINDS = st.sampled_from(["V", "W", "C", "P", "X", "N"])


@st.composite
def plain_lines(draw):
    kind = draw(KINDS)
    ln = draw(S.item_line(kind=kind if kind != "N" else "X", v12=False))
    form = "plain"
    if ":" in ln["v"]:
        form = "time-value"
    elif ":" in ln["d"]:
        form = "descr-colons"
    elif ":" in ln["u"] or "." in ln["u"]:
        form = "unit-dots-colons"
    elif " " in ln["m"] or "\t" in ln["m"]:
        form = "mnemonic-inner-blank"
    return {"kind": kind, "line": ln, "form": form}


@st.composite
def np_lines(draw):
    """NAME : VALUE (no period before the first colon)."""
    kind = draw(KINDS)
    name = draw(S.mnemonic(allow_inner_blank=True))
    value = draw(st.one_of(S.field_text(colon_ok=True), S.clock_time(), st.just("12/11/2010"), st.just("85.7"),
                           st.just("a.b : c")))
    p = [draw(S.pad0), draw(S.pad0), draw(S.pad0), draw(S.pad0)]
    return {"kind": kind, "form": "no-period", "line": {"t": "np", "m": name, "v": value.strip(), "p": p}}


@st.composite
def numeric_unit_lines(draw):
    """`.1000 lbf`: a numeric unit followed by exactly one blank keeps the next token; with two or more blanks the
    usual rule applies (unit 1000, value starts with the token)."""
    kind = draw(KINDS)
    digits = str(draw(st.integers(0, 99999)))
    suffix = draw(st.sampled_from(["lbf", "psi", "kg/m3", "N", "ft.lbf", "%", "\u00b0C", "\u0444\u0443\u043d\u0442", "(lbf)", "/min", "\u03a9m"]))
    single = draw(st.booleans())
    rest = draw(S.field_text(colon_ok=False))
    descr = draw(S.field_text(colon_ok=False))
    p = [draw(S.pad0), draw(S.pad0), draw(S.pad1), draw(S.pad0), draw(S.pad0), draw(S.pad0)]
    if single:
        ln = {"t": "item", "m": draw(S.mnemonic()), "u": digits + " " + suffix, "v": rest, "d": descr, "p": p}
        if rest == "":
            p[2] = draw(S.pad0)
    else:
        gap = draw(st.sampled_from(["  ", "   ", " \t", "\t "]))
        value = (suffix + (draw(S.pad1) + rest if rest else "")).strip()
        ln = {"t": "item", "m": draw(S.mnemonic()), "u": digits, "v": value, "d": descr, "p": p}
        p[2] = gap
    if kind == "C":
        while ".." in ln["v"]:
            ln["v"] = ln["v"].replace("..", ".")
    return {"kind": kind, "form": "numeric-unit-1blank" if single else "numeric-unit-2blanks", "line": ln}


@st.composite
def leading_dot_unit_lines(draw):
    """Documented form (header-section.rst, "Units containing periods"): `TDEP  ..1IN : 0.1-in` parses as mnemonic
    TDEP, unit .1IN. Blank-separated form in every section; the adjoining form `TDEP..1IN` outside ~Curves only
    (in ~Curves 'X..' is the documented mnemonic-ending-in-a-period rule)."""
    kind = draw(KINDS)
    ln = draw(S.item_line(kind=kind if kind != "N" else "X", v12=False, times=False))
    ln["u"] = draw(st.sampled_from([".1IN", ".5m", ".01ft", ".1IN/s", ".x"]))
    adjoining = kind != "C" and draw(st.booleans())
    ln["p"][1] = "" if adjoining else draw(S.pad1)
    if ln["v"] != "" and ln["p"][2] == "":
        ln["p"][2] = " "
    if kind == "C":
        # the description of a curve may contain '..' (the statement only excludes it from ~Curves VALUES)
        if draw(st.booleans()):
            ln["d"] = (ln["d"] + " see note..").strip()
    return {"kind": kind, "form": "leading-dot-unit" + ("-adjoining" if adjoining else ""), "line": ln}


@st.composite
def curves_double_dot_lines(draw):
    """~Curves lines with '..': either the mnemonic ends in a period and the unit adjoins (`I. Res..OHM-M`, pinned by
    lasio's own test of issue 264: name 'I. Res.', unit 'OHM-M') or the '..' stands in the description only
    (`GR .GAPI 45 : gamma ray (see note..)`). Both shapes in ONE part: what is learnt from one line must not leak into
    the parse of the next (a parse is a function of the line and the section)."""
    ln = draw(S.item_line(kind="C", v12=False, times=False))
    while ".." in ln["v"]:
        ln["v"] = ln["v"].replace("..", ".")
    if draw(st.booleans()):
        ln["m"] = draw(st.sampled_from(["I. Res.", "RES.", "A.B.", "Ind. Deep.", "GR."]))
        if ln["u"] == "":
            ln["u"] = "OHM-M"
        ln["p"][1] = ""  # the delimiter period adjoins the mnemonic's own last period
        if ln["v"] != "" and ln["p"][2] == "":
            ln["p"][2] = " "
        form = "dotted-mnemonic"
    else:
        ln["d"] = (ln["d"] + " " + draw(st.sampled_from(["(see note..)", "etc..", "corrected.. twice", "x..y"]))).strip()
        form = "descr-double-dot"
    if draw(st.booleans()):
        ln["d"] = (ln["d"] + " see note..").strip()
    return {"kind": "C", "form": form, "line": ln}


def clock_cases(tier):
    """Every HH:MM (24 x 60) x seconds {none, :SS} x date placement {none, before, after} x {Parameter, Well}."""
    for h in range(24):
        for m in range(60):
            for sec in (None, (h * 7 + m * 13) % 60):
                t = "%02d:%02d" % (h, m) + ("" if sec is None else ":%02d" % sec)
                for form, v in (("t", t), ("dt", "23-JAN-2001 " + t), ("td", t + " 23-JAN-2001")):
                    for kind in ("P", "W"):
                        descr = "Time Logger: At Bottom" if kind == "P" and (h + m) % 2 else "Time Logger"
                        ln = {"t": "item", "m": "TIML", "u": "" if m % 3 else "hh:mm", "v": v, "d": descr,
                              "p": ["", " " if h % 2 else "", " ", " ", "   " if m % 2 else " ", ""]}
                        yield {"kind": kind, "form": "clock-" + form, "line": ln}


# ---------------------------------------------------------------------------------------
# whole files


def oracle_file(case):
    out = Outcome()
    spec = case["spec"]
    mc = case["mnemonic_case"]
    v = lastext.spec_version(spec)
    out.cls("file", "v" + v, "mc-" + mc)
    out.nontrivial = True
    out.sample = spec_summary(spec, 600)
    las = read_spec(spec, mnemonic_case=mc)
    if is_raised(las):
        out.fail("file-raises|%s|%s" % (las.bucket, v), "%s\n%s" % (las, spec_summary(spec)))
        return out
    diffs, got, exp = compare_with_expected(las, spec, mnemonic_case=mc)
    if diffs:
        out.fail("file-item|%s|v%s" % (diffs[0][0], v), canon.show(diffs) + "\n" + spec_summary(spec))
    return out


@st.composite
def files(draw):
    vers = draw(st.sampled_from(["1.2", "1.2", "2.0", "2.0", "3.0"]))  # 3.0: the 2.0 line layout under ordinary titles
    v12 = vers == "1.2"
    from checks.c05 import TITLES

    def ttl(kind, default):
        # any documented spelling of the title, lower case included: the line grammar must not depend on it
        return draw(st.sampled_from(TITLES[kind])) if draw(st.booleans()) else default

    secs = [lastext.section("V", ttl("V", "~Version"), [lastext.item("VERS", "", vers, "v"), lastext.item("WRAP", "", "NO", "w")])]
    # the four value-first lines of a 1.2 ~Well section in any letter case
    sp = draw(st.sampled_from([str.upper, str.upper, str.lower, str.title, lambda x: x[0] + x[1:].lower().swapcase().lower()]))
    well = [lastext.item(sp("STRT"), "M", "1", "start"), lastext.item(sp("STOP"), "M", "2", "stop"),
            lastext.item(sp("STEP"), "M", "1", "step"), lastext.item(sp("NULL"), "", "-999.25", "null")]
    well += draw(st.lists(S.item_line(kind="W", v12=v12), max_size=4))
    secs.append(lastext.section("W", ttl("W", "~Well"), well))
    curves = [lastext.item("DEPT", "M", "", "depth")] + draw(st.lists(S.item_line(kind="C", v12=v12), max_size=3))
    secs.append(lastext.section("C", ttl("C", "~Curves"), curves))
    secs.append(lastext.section("P", ttl("P", "~Params"), draw(st.lists(S.item_line(kind="P", v12=v12), max_size=4))))
    if draw(st.booleans()):
        secs.append(lastext.section("X", ttl("X", "~Tops"), draw(st.lists(S.item_line(kind="X", v12=v12), max_size=3))))
    n = len(curves)
    secs.append(lastext.section("A", ttl("A", "~A"), [lastext.row([str(i + j) for j in range(n)]) for i in range(2)], ncols=n))
    spec = {"nl": "\n", "final_nl": True, "sections": secs}
    return {"spec": spec, "mnemonic_case": draw(st.sampled_from(["preserve", "upper", "lower"]))}


def parts(tier):
    return [
        Hyp("lines", plain_lines, quick=20000, thorough=600000),
        Hyp("no-period-lines", np_lines, quick=3000, thorough=60000),
        Hyp("numeric-unit-lines", numeric_unit_lines, quick=3000, thorough=60000),
        Hyp("leading-dot-unit-lines", leading_dot_unit_lines, quick=3000, thorough=60000),
        Hyp("curves-double-dot-lines", curves_double_dot_lines, quick=3000, thorough=40000),
        Enum("clock-times-24x60", clock_cases),
        Hyp("lines-in-files", files, quick=3000, thorough=40000),
    ]
