"""C14 - the curve collection behaves like an ordered list model under every edit history.

case = {"start": [kind] or [kind, kind], "n": rows per curve, "ops": [op, ...]}
  kind: "fresh" | "read-preserve" | "read-upper"     (two kinds = a pair of LASFiles edited alternately)
  op:   {"op": <kind>, "t": index of the LASFile it is applied to, ...arguments}
        arrays are lists of ints (1-D) / lists of rows (2-D); positions are ints (or, in the enumerated part,
        the symbols "len" "mid" "last" "past" "-len"); mnemonics are strings (or {"s": i} = the model's session
        name at position i, {"o": i} = the model's original name at position i).
`oracle(case)` replays the list against fresh LASFile(s) and the list model; the state machine draws operations,
appends them to the list and applies them through the same `System.step`.
"""
import io
import itertools

import numpy as np
from hypothesis import strategies as st
from hypothesis.stateful import RuleBasedStateMachine, initialize, rule

from vlib import findings
from vlib.api import Enum, Machine, Outcome, attempt, is_raised
from vlib.models import NameModel, useful

ID = "C14"
LEVEL = "exploration"
RULE = ("case = (start state(s), operation list). Start: lasio.LASFile() with n in {1,3} rows per curve, or a fixed "
        "3-curve/3-row LAS text read with mnemonic_case='preserve' or the default 'upper'; single file or a pair edited "
        "alternately. Operations: append_curve, insert_curve (ix 0/len/middle/-1/-2/past the end), delete_curve (ix / "
        "mnemonic / both / missing / out of range), update_curve (ix / mnemonic / both; any subset of data, unit, descr, "
        "value), replace_curve_item (ix incl. negative), las[k]=ndarray (existing / new key), las[k]=CurveItem (existing "
        "/ new / mismatching key), set_data (n x w array, w = len..len+2; names None / shorter / equal / with "
        "duplicates; truncate False/True; one call in eight with an array of zero rows, which only renumbers); one array in eight is a text curve ('t5001'); mnemonics from {A, B, a, '', DEPT, 'A:1' (a name that looks like a numbered key; a key held twice addresses the first holder)}; every array carries values unique in "
        "the run, so a displaced curve is visible. A state machine generates histories of <= 25 (quick) steps; all "
        "sequences of <= 3 operations (thorough: <= 4 on two of the start states) over a 28-letter symbolic operation "
        "alphabet are enumerated on 4 start states (and <= 2, thorough <= 3, on 3 pairs). After every step every view (curves list, "
        "original_mnemonic, keys(), unit/value/descr, values(), items(), index, data, las[i], las[k], curves[i], "
        "curves[k]) of every LASFile of the case is compared with a plain Python list model; the run stops at its "
        "first violation. Non-trivial: >= 3 distinct operation kinds took effect, one of them a delete or a replace.")
ASSUMPTIONS = [
    "trusted base: numpy, Python list semantics (list.insert / del lst[i] / lst[i] = x) and vlib.models.NameModel "
    "(documented session-name rule: blank -> UNKNOWN; after each insertion the items sharing the inserted name are "
    "numbered :1..:n; deletion does not renumber; comparison ignores case iff curves.mnemonic_transforms is True, "
    "which is read from the LASFile under test)",
    "arguments documented as ndarray are passed as float ndarrays of one common length per run, CurveItems are always "
    "freshly built (never shared between LASFiles or positions; the rule append_shared hands one ndarray OBJECT to "
    "two append_curve calls - the caller never writes into it afterwards, so the model keeps independent copies); "
    "all curves therefore keep equal length, which is "
    "the precondition of the `data` view; `index` and `data` are not examined while the curve list is empty",
    "replace = the element a Python list would address keeps its position (lst[ix] = item), the new item's name is "
    "numbered like an insertion; a key is 'existing' for las[k] = ... iff k is in las.keys() (exact comparison)",
    "set_data as documented: names replace the original mnemonics of the existing curves in order, extra columns "
    "create curves named '' (UNKNOWN), truncate=True drops the columns beyond the curve list (not examined on an "
    "empty curve list); that a names list "
    "shorter than the curve list is padded with '' is taken from the code (source comment), not from the docstring; "
    "names=[] names nothing (the curves keep their names, as with None: both set_data and set_data_from_df test "
    "`not names`); names longer than the curve list are not generated (undetermined); after set_data all session "
    "names are those of a from-scratch numbering",
    "operations the model refuses (missing mnemonic -> ValueError, position out of range -> IndexError, "
    "las[k] = CurveItem with k != item.mnemonic -> KeyError) only have to leave every view unchanged; neither the "
    "exception type nor the fact that one is raised is asserted. Keys that differ from a session name only by case "
    "are not generated for delete_curve/update_curve on case-normalised sections (undetermined)",
    "mnemonics containing ':' and the literal UNKNOWN are not used as original names (numbering collisions are C13's "
    "subject); the header sections of the touched LASFile are not compared (only those of the untouched one of a pair)",
]

# buckets of the two defects found by the pre-study; when one of them is listed as an open known finding the
# generators stay out of its region (the finding's own replay file still exercises it).
B_TRUNCATE = "IndexError@las.py:set_data|set_data(truncate)"
B_NEGREPLACE = "order-differs|replace_curve_item(ix<0)"

NAMES = ["A", "B", "a", "", "DEPT", "A:1"]
UNITS = ["", "M", "FT"]
DESCRS = ["", "d1", "two words"]
VALUES = ["", "v1", 7]
STARTS = ["fresh", "read-preserve", "read-upper"]

START_TEXT = """~Version
VERS. 2.0 : CWLS LOG ASCII STANDARD - VERSION 2.0
WRAP. NO  : ONE LINE PER DEPTH STEP
~Well
STRT.M 1.0 : START
STOP.M 3.0 : STOP
STEP.M 1.0 : STEP
NULL. -999.25 : NULL
WELL. W1 : WELL
~Curve
DEPT.M      : depth
A.API  x7   : curve a
b.V         : curve b
~Params
BHT.DEGC 35.5 : temp
~Other
note
~ASCII
1 11 21
2 12 22
3 13 23
"""
START_CURVES = [("DEPT", "M", "", "depth", [1.0, 2.0, 3.0]),
                ("A", "API", "x7", "curve a", [11.0, 12.0, 13.0]),
                ("b", "V", "", "curve b", [21.0, 22.0, 23.0])]

KINDS = ("append_curve", "insert_curve", "delete_curve", "update_curve", "replace_curve_item", "setitem_array",
         "setitem_item", "set_data")


class OutOfDomain(Exception):
    """The case asks for something the property does not speak about (only reachable through hand-written replays)."""


# ---------------------------------------------------------------------------------------------------------------
# the model


def num_or_text(x):
    return x if isinstance(x, str) else float(x)


def rec(m, d, u="", de="", v=""):
    return dict(orig=m, unit=u, value=v, descr=de, data=[num_or_text(x) for x in d])


class Model(object):
    """Plain Python list of records; session names by NameModel, kept in lockstep."""

    def __init__(self, ci):
        self.names = NameModel(ci)
        self.recs = []

    def __len__(self):
        return len(self.recs)

    def sessions(self):
        return self.names.sessions()

    def find(self, key):
        s = self.sessions()
        return s.index(key) if key in s else None

    def insert(self, ix, r):
        self.recs.insert(ix, r)
        self.names.insert(ix, r["orig"])

    def delete(self, ix):
        del self.recs[ix]  # IndexError when a list would raise it
        self.names.delete(ix)

    def replace(self, ix, r):
        self.recs[ix] = r  # IndexError when a list would raise it
        self.names.items[ix] = [r["orig"], useful(r["orig"])]
        self.names.renumber(useful(r["orig"]))

    def rename_all(self, names):
        for i, nm in enumerate(names):
            self.recs[i]["orig"] = nm
            self.names.items[i] = [nm, useful(nm)]
        self.names.renumber_all()

    def show(self):
        return [(s, r["orig"], r["unit"], r["value"], r["descr"], r["data"]) for s, r in zip(self.sessions(), self.recs)]


def in_range(ix, n):
    return -n <= ix < n


def model_apply(M, op, n):
    """Apply a concrete op to the model. Returns None, or the name of the exception a list model raises (the
    model is then unchanged)."""
    k = op["op"]
    L = len(M)
    if k == "append_curve":
        M.insert(L, rec(op["m"], op["d"], op["u"], op["de"], op["v"]))
    elif k == "insert_curve":
        M.insert(op["ix"], rec(op["m"], op["d"], op["u"], op["de"], op["v"]))
    elif k == "delete_curve":
        if op.get("ix") is not None:  # "The index takes precedence over the mnemonic."
            if not in_range(op["ix"], L):
                return "IndexError"
            M.delete(op["ix"])
        else:
            ix = M.find(op["m"])
            if ix is None:
                return "ValueError"
            M.delete(ix)
    elif k == "update_curve":
        if op.get("ix") is not None:
            if not in_range(op["ix"], L):
                return "IndexError"
            ix = op["ix"]
        else:
            ix = M.find(op["m"])
            if ix is None:
                return "ValueError"
        r = M.recs[ix]
        if "d" in op:
            r["data"] = [num_or_text(x) for x in op["d"]]
        if "u" in op:
            r["unit"] = op["u"]
        if "de" in op:
            r["descr"] = op["de"]
        if "v" in op:
            r["value"] = op["v"]
    elif k == "replace_curve_item":
        if not in_range(op["ix"], L):
            return "IndexError"
        it = op["item"]
        M.replace(op["ix"], rec(it["m"], it["d"], it["u"], it["de"], it["v"]))
    elif k == "setitem_array":
        ix = M.find(op["k"])
        if ix is None:
            M.insert(L, rec(op["k"], op["d"]))
        else:
            M.recs[ix]["data"] = [num_or_text(x) for x in op["d"]]
    elif k == "setitem_item":
        it = op["item"]
        if op["k"] != useful(it["m"]):  # session mnemonic of a freshly built item
            return "KeyError"
        r = rec(it["m"], it["d"], it["u"], it["de"], it["v"])
        ix = M.find(op["k"])
        if ix is None:
            M.insert(L, r)
        else:
            M.replace(ix, r)
    elif k == "set_data":
        rows = op["rows"]
        if op.get("zero_w") is not None:
            # an array without rows carries nothing to set: `data.size > 0` guards both the extension of the curve list
            # and the assignment loop of set_data; what remains is the closing renumbering of all session names
            M.names.renumber_all()
            return None
        if len(rows) != n or len({len(rw) for rw in rows}) != 1:
            raise OutOfDomain("set_data array must be n x w")
        w = len(rows[0])
        names = op.get("names")
        if op.get("truncate"):
            # "remove any columns which are not included in the Curves (~C) section": with an empty curve list
            # every column is removed, nothing is created
            w = min(w, L)
        if w < L:
            raise OutOfDomain("set_data array narrower than the curve list")
        if names is not None and len(names) > max(w, L):
            raise OutOfDomain("names longer than the curve list")
        if names is not None and len(names) == 0:
            names = None  # an empty list names nothing: the curves keep their names (`if not names` in set_data and set_data_from_df)
        if w == 0:
            return None
        while len(M) < w:
            M.insert(len(M), rec("", []))
        if names is None:
            names = [r["orig"] for r in M.recs]
        else:
            names = list(names) + [""] * (len(M) - len(names))
        M.rename_all(names)
        for i, r in enumerate(M.recs):
            r["data"] = [float(rw[i]) for rw in rows]
    else:
        raise OutOfDomain("unknown op %r" % k)
    return None


# ---------------------------------------------------------------------------------------------------------------
# symbolic arguments (enumerated part) -> concrete arguments, using the model only


def resolve(op, M, n):
    L = len(M)
    c = dict(op)

    def pos(v):
        if isinstance(v, str):
            return {"len": L, "mid": L // 2, "last": L - 1, "past": L + 2, "-len": -L}[v]
        return v

    def name(v):
        if isinstance(v, dict):
            if L == 0:
                return "A"
            if "s" in v:
                return M.sessions()[v["s"] % L]
            return M.recs[v["o"] % L]["orig"]
        return v

    if "ix" in c:
        c["ix"] = pos(c["ix"])
    for f in ("m", "k"):
        if f in c:
            c[f] = name(c[f])
    if "item" in c:
        c["item"] = dict(c["item"], m=name(c["item"]["m"]))
    if c["op"] == "set_data":
        if isinstance(c["rows"], dict):
            w = L + c["rows"]["extra"]
            b = c["rows"]["base"]
            c["rows"] = [[b * 1000 + j * 10 + i for j in range(w)] for i in range(n)]
        nm = c.get("names")
        if isinstance(nm, dict):
            w = len(c["rows"][0]) if c["rows"] else 0
            final = L if c.get("truncate") else max(L, w)
            cnt = final if nm["len"] == "eq" else final - 1
            c["names"] = [nm["pat"][i % len(nm["pat"])] for i in range(cnt)] if cnt > 0 else None
    return c


def optag(op, M):
    """Operation kind plus the argument class that selects the code path (part of every bucket)."""
    k = op["op"]
    L = len(M)
    if k == "insert_curve":
        return k + ("(ix<0)" if op["ix"] < 0 else "(ix>len)" if op["ix"] > L else "")
    if k == "append_curve" and op.get("share"):
        return k + "(shared-array)"
    if k in ("delete_curve", "update_curve"):
        return k + ("(both)" if op.get("ix") is not None and op.get("m") is not None
                    else "(ix)" if op.get("ix") is not None else "(mnemonic)")
    if k == "replace_curve_item":
        return k + ("(ix<0)" if op["ix"] < 0 else "")
    if k == "setitem_array":
        return k + ("(existing)" if M.find(op["k"]) is not None else "(new)")
    if k == "setitem_item":
        if op["k"] != useful(op["item"]["m"]):
            return k + "(mismatch)"
        return k + ("(existing)" if M.find(op["k"]) is not None else "(new)")
    if k == "set_data":
        if op.get("zero_w") is not None:
            return k + "(zero-rows)"
        return k + ("(truncate)" if op.get("truncate") else "(names)" if op.get("names") is not None else "")
    return k


# ---------------------------------------------------------------------------------------------------------------
# lasio side


def arr(lst):
    if any(isinstance(x, str) for x in lst):
        return np.array(lst)  # a text curve
    return np.array(lst, dtype=float)


def arr2(rows, n):
    a = np.array(rows, dtype=float)
    return a.reshape(n, -1) if a.size else np.zeros((n, 0))


def item_of(it):
    from lasio import CurveItem

    return CurveItem(it["m"], it["u"], it["v"], it["de"], arr(it["d"]))


def lasio_apply(las, op, shared=None):
    k = op["op"]

    def given(d):
        # "share": the caller hands the SAME ndarray object to every operation that carries these values (one depth
        # array appended to two LASFiles); what lasio later does to one file must not show in the other
        if op.get("share") and shared is not None:
            return shared.setdefault(tuple(d), arr(d))
        return arr(d)

    if k == "append_curve":
        return attempt(las.append_curve, op["m"], given(op["d"]), unit=op["u"], descr=op["de"], value=op["v"])
    if k == "insert_curve":
        return attempt(las.insert_curve, op["ix"], op["m"], given(op["d"]), unit=op["u"], descr=op["de"], value=op["v"])
    if k == "delete_curve":
        kw = {}
        if op.get("ix") is not None:
            kw["ix"] = op["ix"]
        if op.get("m") is not None:
            kw["mnemonic"] = op["m"]
        return attempt(las.delete_curve, **kw)
    if k == "update_curve":
        kw = {}
        if op.get("ix") is not None:
            kw["ix"] = op["ix"]
        if op.get("m") is not None:
            kw["mnemonic"] = op["m"]
        if "d" in op:
            kw["data"] = arr(op["d"])
        if "u" in op:
            kw["unit"] = op["u"]
        if "de" in op:
            kw["descr"] = op["de"]
        if "v" in op:
            kw["value"] = op["v"]
        return attempt(las.update_curve, **kw)
    if k == "replace_curve_item":
        return attempt(las.replace_curve_item, op["ix"], item_of(op["item"]))
    if k == "setitem_array":
        return attempt(las.__setitem__, op["k"], arr(op["d"]))
    if k == "setitem_item":
        return attempt(las.__setitem__, op["k"], item_of(op["item"]))
    if k == "set_data":
        kw = {}
        if op.get("names") is not None:
            kw["names"] = list(op["names"])
        if op.get("truncate"):
            kw["truncate"] = True
        if op.get("zero_w") is not None:
            return attempt(las.set_data, np.empty((0, op["zero_w"])), **kw)
        return attempt(las.set_data, arr2(op["rows"], len(op["rows"])), **kw)
    raise OutOfDomain("unknown op %r" % k)


def aslist(x):
    try:
        a = np.asarray(x)
        if a.ndim != 1:
            return "<array of shape %r>" % (a.shape,)
        if a.dtype.kind in "USO":
            # a text curve stays text ('t5001'), and numbers turned into text ('1000.0') are not the numbers of the model
            return [v if isinstance(v, str) else float(v) for v in a.tolist()]
        return [float(v) for v in a.tolist()]
    except Exception as e:  # noqa  (text data etc.: rendered, never equal to a model array)
        return "<unreadable %s>" % type(e).__name__


class ViewRaised(Exception):
    def __init__(self, view, raised):
        Exception.__init__(self, view)
        self.view = view
        self.raised = raised


def diff_views(las, M, n):
    """First view of `las` that differs from the model: (view, message), or None."""

    def get(view, fn, *a):
        r = attempt(fn, *a)
        if is_raised(r):
            raise ViewRaised(view, r)
        return r

    L = len(M)
    sess = M.sessions()
    exp_data = [r["data"] for r in M.recs]
    cur = get("curves", lambda: list(las.curves))
    if len(cur) != L:
        return "len", "len(las.curves) = %d, model has %d" % (len(cur), L)
    got_data = [aslist(c.data) for c in cur]
    if got_data != exp_data:
        same_set = sorted(map(repr, got_data)) == sorted(map(repr, exp_data))
        return ("order" if same_set else "curve-data"), "curve arrays in order:\n lasio %r\n model %r" % (got_data, exp_data)
    got = [c.original_mnemonic for c in cur]
    if got != [r["orig"] for r in M.recs]:
        return "originals", "original_mnemonic: lasio %r model %r" % (got, [r["orig"] for r in M.recs])
    got = get("keys", las.keys)
    if got != sess:
        return "keys", "las.keys(): lasio %r model %r" % (got, sess)
    got = get("curves.keys", las.curves.keys)
    if got != sess:
        return "keys", "las.curves.keys(): lasio %r model %r" % (got, sess)
    for f in ("unit", "value", "descr"):
        got = [getattr(c, f) for c in cur]
        exp = [r[f] for r in M.recs]
        if got != exp or [type(x) for x in got] != [type(x) for x in exp]:
            return f, "%s per position: lasio %r model %r" % (f, got, exp)
    got = get("values", las.values)
    if [aslist(x) for x in got] != exp_data:
        return "values", "las.values(): lasio %r model %r" % ([aslist(x) for x in got], exp_data)
    got = get("items", las.items)
    got = [(kk, aslist(x)) for kk, x in got]
    if got != list(zip(sess, exp_data)):
        return "items", "las.items(): lasio %r model %r" % (got, list(zip(sess, exp_data)))
    if L > 0:
        got = aslist(get("index", lambda: las.index))
        if got != exp_data[0]:
            return "index", "las.index: lasio %r model (curve 0) %r" % (got, exp_data[0])
        d = np.asarray(get("data", lambda: las.data))
        if d.shape != (n, L):
            return "data", "las.data.shape = %r, model (%d, %d)" % (d.shape, n, L)
        if d.dtype.kind in "US" and any(isinstance(v, str) for e in exp_data for v in e):
            # with a text curve in the list the 2-D array has one common (text) type: column i equals curve i converted
            # to that type, which is what numpy itself makes of the model's arrays
            exp2d = np.vstack([arr(e) for e in exp_data]).T
            if d.tolist() != exp2d.tolist():
                return "data", "las.data = %r, the model's arrays stacked give %r" % (d.tolist(), exp2d.tolist())
        for i in range(L if d.dtype.kind not in "US" else 0):
            if aslist(d[:, i]) != exp_data[i]:
                return "data", "las.data[:, %d] = %r, model curve %d = %r" % (i, aslist(d[:, i]), i, exp_data[i])
    for i in range(-L, L):
        got = aslist(get("getitem-int", las.__getitem__, i))
        if got != M.recs[i]["data"]:
            return "getitem-int", "las[%d] = %r, model %r" % (i, got, M.recs[i]["data"])
        it = get("curves-index", las.curves.__getitem__, i)
        if it is not cur[i]:
            return "curves-index", "las.curves[%d] is not the item at that position (got %r)" % (i, it)
    for i, kk in enumerate(sess):
        # a curve NAMED like the numbered key of a group ("A:1" beside two "A") shares its key with a member of it: a
        # lookup by key in a list finds the first such entry, which is also the one every edit by mnemonic addresses
        if M.names.ci:
            i = [x.upper() for x in sess].index(kk.upper())
        else:
            i = sess.index(kk)
        got = aslist(get("getitem-key", las.__getitem__, kk))
        if got != exp_data[i]:
            return "getitem-key", "las[%r] = %r, model (position %d) %r" % (kk, got, i, exp_data[i])
        it = get("curves-key", las.curves.__getitem__, kk)
        if it is not cur[i]:
            return "curves-key", "las.curves[%r] is not the item at position %d (got %r)" % (kk, i, it)
    return None


def header_snapshot(las):
    snap = []
    for name in sorted(las.sections):
        sec = las.sections[name]
        if isinstance(sec, str):
            snap.append((name, sec))
        elif name != "Curves":
            snap.append((name, [(it.original_mnemonic, it.mnemonic, it.unit, repr(it.value), it.descr) for it in sec]))
    return snap


def lasio_show(las):
    r = attempt(lambda: [(c.mnemonic, c.original_mnemonic, c.unit, c.value, c.descr, aslist(c.data)) for c in las.curves])
    return repr(r)


# ---------------------------------------------------------------------------------------------------------------
# one run = start state(s) + steps


class System(object):
    def __init__(self, starts, n):
        import lasio

        self.out = Outcome()
        self.n = n
        self.starts = list(starts)
        self.dead = False
        self.las, self.models, self.hdr = [], [], []
        self.history = []  # concrete operations applied so far
        self.shared = {}  # arrays the caller gives to more than one operation
        self.effective = set()  # kinds of operations that took effect
        self.tags = set()
        self.maxlen = 0
        if not 1 <= len(self.starts) <= 2 or any(s not in STARTS for s in self.starts) or n not in (1, 3) \
                or (n != 3 and any(s != "fresh" for s in self.starts)):
            self.out.cls("out-of-domain")
            self.out.rejected = True
            self.dead = True
            return
        for s in self.starts:
            if s == "fresh":
                las = attempt(lasio.LASFile)
            else:
                las = attempt(lasio.read, io.StringIO(START_TEXT),
                              **({"mnemonic_case": "preserve"} if s == "read-preserve" else {}))
            if is_raised(las):
                self.out.fail("%s|start:%s" % (las.bucket, s), "building the start state raised %s" % las)
                self.dead = True
                return
            M = Model(bool(getattr(las.curves, "mnemonic_transforms", False)))
            if s != "fresh":
                for m, u, v, de, d in START_CURVES:
                    M.insert(len(M), rec(m.upper() if s == "read-upper" else m, d, u, de, v))
            self.las.append(las)
            self.models.append(M)
        for t in range(len(self.las)):
            self.hdr.append(header_snapshot(self.las[t]))
            if not self.check(t, "start:" + self.starts[t], None):
                return

    def describe(self, t, op):
        lines = ["start=%r n=%d target=%d step=%d" % (self.starts, self.n, t, len(self.history))]
        if op is not None:
            lines.append("operation: %r" % (op,))
        lines.append("model : %r" % (self.models[t].show(),))
        lines.append("lasio : %s" % lasio_show(self.las[t]))
        if self.history:
            lines.append("history: " + "\n         ".join(repr(h) for h in self.history))
        return "\n".join(lines)

    def check(self, t, tag, op, prefix=""):
        try:
            d = diff_views(self.las[t], self.models[t], self.n)
        except ViewRaised as e:
            self.out.fail("%s|view:%s|%s" % (e.raised.bucket, e.view, tag),
                          "reading the view raised %s\n%s" % (e.raised, self.describe(t, op)))
            self.dead = True
            return False
        if d:
            self.out.fail("%s%s-differs|%s" % (prefix, d[0], tag), "%s\n%s" % (d[1], self.describe(t, op)))
            self.dead = True
            return False
        return True

    def step(self, op):
        """Apply one (possibly symbolic) operation to model and LASFile, judge; False once the run is over."""
        if self.dead:
            return False
        t = op.get("t", 0)
        if t not in range(len(self.las)):
            self.out.cls("out-of-domain")
            self.dead = True
            return False
        M, las = self.models[t], self.las[t]
        try:
            c = resolve(op, M, self.n)
            tag = optag(c, M)
            for f in ("d",):
                if f in c and len(c[f]) != self.n:
                    raise OutOfDomain("array length != n")
            if "item" in c and len(c["item"]["d"]) != self.n:
                raise OutOfDomain("array length != n")
            refused = model_apply(M, c, self.n)
        except OutOfDomain:
            self.out.cls("out-of-domain")
            self.dead = True
            return False
        self.history.append(c)
        res = lasio_apply(las, c, self.shared)
        if refused:
            tag += "(refused)"
            self.out.cls("refused:" + refused, "refused-and-%s" % ("raised" if is_raised(res) else "returned"))
        else:
            self.effective.add(c["op"] + ("/replace" if tag == "setitem_item(existing)" else ""))
            if is_raised(res):
                self.out.fail("%s|%s" % (res.bucket, tag), "%s on an operation with in-domain arguments\n%s"
                              % (res, self.describe(t, c)))
                self.dead = True
                return False
        self.tags.add(tag)
        self.maxlen = max(self.maxlen, len(M))
        if not self.check(t, tag, c):
            return False
        for o in range(len(self.las)):
            if o == t:
                continue
            if not self.check(o, tag, c, prefix="other-file-"):
                return False
            h = header_snapshot(self.las[o])
            if h != self.hdr[o]:
                self.out.fail("other-file-header-differs|" + tag, "header sections of the untouched LASFile changed:\n"
                              " before %r\n after  %r\n%s" % (self.hdr[o], h, self.describe(t, c)))
                self.dead = True
                return False
        return True

    def finish(self):
        out = self.out
        eff = self.effective
        out.nontrivial = len({e.split("/")[0] for e in eff}) >= 3 and bool(
            eff & {"delete_curve", "replace_curve_item", "setitem_item/replace"})
        out.cls("pair" if len(self.starts) == 2 else "single", *["start:" + s for s in sorted(set(self.starts))])
        out.cls("n=%d" % self.n, *["op:" + x for x in sorted(self.tags)])
        if self.maxlen > 3:
            out.cls("reached-more-than-3-curves")
        if any(len(set(M.sessions())) != len(M) for M in self.models):
            out.cls("model-has-duplicate-session-names")
        if any(":" in s for M in self.models for s in M.sessions()):
            out.cls("numbered-duplicates")
        return out


def oracle(case):
    S = System(case["start"], case["n"])
    for op in case["ops"]:
        if not S.step(op):
            break
    return S.finish()


# ---------------------------------------------------------------------------------------------------------------
# generators


def avoided():
    """Regions of open known findings the generators stay out of."""
    known = findings.open_for(ID)
    return {b for b in (B_TRUNCATE, B_NEGREPLACE) if b in known}


def unique1(k, n):
    return [k * 1000 + i for i in range(n)]


def unique2(k, n, w):
    return [[k * 1000 + j * 10 + i for j in range(w)] for i in range(n)]


def make_machine(ctx, pair):
    avoid = avoided()

    class CurveEdits(RuleBasedStateMachine):
        def __init__(self):
            RuleBasedStateMachine.__init__(self)
            self.case = None
            self.S = None
            self.k = 0
            self.excluded = False

        @initialize(data=st.data())
        def start(self, data):
            if pair:
                starts = [data.draw(st.sampled_from(STARTS)), data.draw(st.sampled_from(STARTS))]
            else:
                starts = [data.draw(st.sampled_from(STARTS))]
            n = 3 if any(s != "fresh" for s in starts) else data.draw(st.sampled_from([1, 3]))
            self.case = dict(start=starts, n=n, ops=[])
            self.S = System(starts, n)

        # -- helpers ------------------------------------------------------------------
        def target(self, data):
            t = data.draw(st.integers(0, 1)) if pair else 0
            return t, self.S.models[t]

        def fresh(self):
            self.k += 1
            return self.k

        def push(self, op):
            self.case["ops"].append(op)
            self.S.step(op)

        def fields(self, data):
            return dict(u=data.draw(st.sampled_from(UNITS)), de=data.draw(st.sampled_from(DESCRS)),
                        v=data.draw(st.sampled_from(VALUES)))

        def existing_ix(self, data, M):
            L = len(M)
            if L == 0 or data.draw(st.integers(0, 9)) == 0:
                return data.draw(st.sampled_from([L, -L - 1, L + 2]))  # out of range
            return data.draw(st.integers(-L, L - 1))

        def key(self, data, M, exact_only):
            sess = M.sessions()
            kk = data.draw(st.sampled_from(sess + NAMES + ["Z"] if data.draw(st.booleans()) or not sess else sess))
            if exact_only and M.names.ci and kk not in sess and any(kk.upper() == s.upper() for s in sess):
                kk = "Z"  # differs from a session name only by case: undetermined for delete/update
            return kk

        def live(self):
            return self.S is not None and not self.S.dead

        def newdata(self, data):
            d = unique1(self.fresh(), self.S.n)
            if data.draw(st.integers(0, 7)) == 0:
                d = ["t%d" % x for x in d]  # a text curve: values(), items(), indexing still return the curve's own array
            return d

        # -- rules --------------------------------------------------------------------
        @rule(data=st.data())
        def append_curve(self, data):
            if not self.live():
                return
            t, M = self.target(data)
            self.push(dict(op="append_curve", t=t, m=data.draw(st.sampled_from(NAMES)),
                           d=self.newdata(data), **self.fields(data)))

        @rule(data=st.data())
        def append_shared(self, data):
            """One array object given to both LASFiles (or twice to the same one)."""
            if not self.live():
                return
            d = self.newdata(data)
            for t in ([0, 1] if pair else [0, 0]):
                if self.live():
                    self.push(dict(op="append_curve", t=t, m=data.draw(st.sampled_from(NAMES)), d=d, share=True, **self.fields(data)))

        @rule(data=st.data())
        def insert_curve(self, data):
            if not self.live():
                return
            t, M = self.target(data)
            L = len(M)
            ix = data.draw(st.sampled_from([0, L, L // 2, -1, -2, L + 2, 1, -L - 1, -L - 2, -2 * L]))  # a list clamps
            self.push(dict(op="insert_curve", t=t, ix=ix, m=data.draw(st.sampled_from(NAMES)),
                           d=self.newdata(data), **self.fields(data)))

        @rule(data=st.data())
        def delete_curve(self, data):
            if not self.live():
                return
            t, M = self.target(data)
            how = data.draw(st.sampled_from(["ix", "ix", "m", "m", "both"]))
            op = dict(op="delete_curve", t=t)
            if how in ("ix", "both"):
                op["ix"] = self.existing_ix(data, M)
            if how in ("m", "both"):
                op["m"] = self.key(data, M, exact_only=True)
            self.push(op)

        @rule(data=st.data())
        def update_curve(self, data):
            if not self.live():
                return
            t, M = self.target(data)
            how = data.draw(st.sampled_from(["ix", "ix", "m", "m", "both"]))
            op = dict(op="update_curve", t=t)
            if how in ("ix", "both"):
                op["ix"] = self.existing_ix(data, M)
            if how in ("m", "both"):
                op["m"] = self.key(data, M, exact_only=True)
            what = data.draw(st.integers(1, 15))
            if what & 1:
                op["d"] = self.newdata(data)
            if what & 2:
                op["u"] = data.draw(st.sampled_from(UNITS))
            if what & 4:
                op["de"] = data.draw(st.sampled_from(DESCRS))
            if what & 8:
                op["v"] = data.draw(st.sampled_from(VALUES))
            self.push(op)

        def new_item(self, data, m):
            return dict(m=m, d=self.newdata(data), **self.fields(data))

        @rule(data=st.data())
        def replace_curve_item(self, data):
            if not self.live():
                return
            t, M = self.target(data)
            ix = self.existing_ix(data, M)
            if ix < 0 and B_NEGREPLACE in avoid:
                self.excluded = True
                ix = ix + len(M) if in_range(ix, len(M)) else len(M)
            self.push(dict(op="replace_curve_item", t=t, ix=ix,
                           item=self.new_item(data, data.draw(st.sampled_from(NAMES)))))

        @rule(data=st.data())
        def setitem_array(self, data):
            if not self.live():
                return
            t, M = self.target(data)
            self.push(dict(op="setitem_array", t=t, k=self.key(data, M, exact_only=False),
                           d=self.newdata(data)))

        @rule(data=st.data())
        def setitem_item(self, data):
            if not self.live():
                return
            t, M = self.target(data)
            # mostly a matching key: an existing unnumbered session name (replace) or a new name (append)
            mode = data.draw(st.sampled_from(["match", "match", "match", "mismatch"]))
            m = data.draw(st.sampled_from(NAMES + [r["orig"] for r in M.recs]))
            if mode == "match":
                kk = useful(m)
            else:
                kk = self.key(data, M, exact_only=False)
            self.push(dict(op="setitem_item", t=t, k=kk, item=self.new_item(data, m)))

        @rule(data=st.data())
        def set_data(self, data):
            if not self.live():
                return
            t, M = self.target(data)
            L = len(M)
            w = L + data.draw(st.sampled_from([0, 0, 1, 2]))
            truncate = data.draw(st.sampled_from([False, False, False, True]))
            if truncate and B_TRUNCATE in avoid:
                self.excluded = True
                truncate = False
            final = L if truncate else w
            names = None
            mode = data.draw(st.sampled_from(["none", "eq", "short", "dups", "empty"]))
            if mode == "empty":
                names = []
            elif mode != "none" and final > 0:
                cnt = final if mode != "short" else data.draw(st.integers(1, final))
                pool = NAMES if mode != "dups" else ["A", "A", "a", ""]
                names = [data.draw(st.sampled_from(pool)) for _ in range(cnt)]
            if data.draw(st.integers(0, 7)) == 0:
                self.push(dict(op="set_data", t=t, rows=[], zero_w=w, names=names, truncate=truncate))
                return
            self.push(dict(op="set_data", t=t, rows=unique2(self.fresh(), self.S.n, w), names=names,
                           truncate=truncate))

        def teardown(self):
            if self.case is not None and self.S is not None:
                out = self.S.finish()
                out.excluded = self.excluded
                ctx.record(self.case, out)

    return CurveEdits


# -- exhaustive part: all short sequences over a symbolic operation alphabet ------------------------------------


def alphabet(p, n):
    """The operation alphabet for position p of a sequence (arrays unique per position)."""
    k = p + 1
    d = unique1(k, n)

    def item(m, u="", de="", v=""):
        return dict(m=m, d=d, u=u, de=de, v=v)

    A = [
        dict(op="append_curve", m="A", d=d, u="M", de="d1", v=""),
        dict(op="append_curve", m="", d=d, u="", de="", v=7),
        dict(op="insert_curve", ix=0, m="A", d=d, u="", de="", v=""),
        dict(op="insert_curve", ix=-1, m="B", d=d, u="FT", de="", v="v1"),
        dict(op="insert_curve", ix="past", m="a", d=d, u="", de="", v=""),
        dict(op="insert_curve", ix="mid", m="A", d=d, u="", de="two words", v=""),
        dict(op="delete_curve", ix=0),
        dict(op="delete_curve", ix=-1),
        dict(op="delete_curve", m={"s": 0}),
        dict(op="delete_curve", m="Z"),
        dict(op="delete_curve", ix="last", m={"s": 0}),
        dict(op="update_curve", ix=-1, d=d, u="FT"),
        dict(op="update_curve", m={"s": -1}, de="d1", v="v1"),
        dict(op="update_curve", ix=0, m={"s": -1}, d=d),
        dict(op="replace_curve_item", ix=0, item=item("A", "M")),
        dict(op="replace_curve_item", ix="last", item=item("B", "", "d1")),
        dict(op="replace_curve_item", ix=-1, item=item("A", "", "", "v1")),
        dict(op="setitem_array", k={"s": 0}, d=d),
        dict(op="setitem_array", k="A", d=d),
        dict(op="setitem_item", k="A", item=item("A", "FT")),
        dict(op="setitem_item", k={"s": -1}, item=item({"o": -1}, "", "d1")),
        dict(op="setitem_item", k="B", item=item("A")),
        dict(op="set_data", rows={"extra": 0, "base": k}, names=None, truncate=False),
        dict(op="set_data", rows={"extra": 1, "base": k}, names=None, truncate=False),
        dict(op="set_data", rows={"extra": 0, "base": k}, names={"len": "eq", "pat": ["A", "A", "B"]}, truncate=False),
        dict(op="set_data", rows={"extra": 1, "base": k}, names={"len": "short", "pat": ["B", "a"]}, truncate=False),
        dict(op="set_data", rows={"extra": 1, "base": k}, names=None, truncate=True),
        dict(op="set_data", rows={"extra": 1, "base": k}, names=[], truncate=False),
        dict(op="set_data", rows={"extra": 0, "base": k}, names={"len": "eq", "pat": ["a", "A"]}, truncate=True),
    ]
    return A


def in_avoided_region(op, avoid):
    if op["op"] == "set_data" and op.get("truncate") and B_TRUNCATE in avoid:
        return True
    if op["op"] == "replace_curve_item" and op["ix"] == -1 and B_NEGREPLACE in avoid:
        return True
    return False


def sequences(starts_n, maxlen, pair):
    avoid = avoided()
    for starts, n in starts_n:
        for length in range(1, maxlen + 1):
            for seq in itertools.product(*[alphabet(p, n) for p in range(length)]):
                if avoid and any(in_avoided_region(op, avoid) for op in seq):
                    continue
                yield dict(start=starts, n=n,
                           ops=[dict(op, t=(p % 2 if pair else 0)) for p, op in enumerate(seq)])


def short_single(tier):
    all4 = [(["fresh"], 1), (["fresh"], 3), (["read-preserve"], 3), (["read-upper"], 3)]
    if tier == "quick":
        return sequences(all4, 3, False)
    # thorough: length 4 on two start states, length <= 3 on the other two (cases stay distinct)
    return itertools.chain(sequences(all4[1::2], 4, False), sequences(all4[0::2], 3, False))


def short_pairs(tier):
    return sequences([(["fresh", "fresh"], 1), (["read-upper", "read-upper"], 3), (["fresh", "read-preserve"], 3)],
                     2 if tier == "quick" else 3, True)


def evidence_extra(stats):
    return dict(avoided_known_regions=sorted(avoided()))


def parts(tier):
    return [
        Enum("all-sequences(single-file)", short_single, budget_s={"thorough": 600}),
        Enum("all-sequences(pair,alternating)", short_pairs, budget_s={"thorough": 600}),
        Machine("histories(single-file)", lambda ctx: make_machine(ctx, False), quick=480, thorough=4800,
                steps={"quick": 25, "thorough": 40}),
        Machine("histories(pair)", lambda ctx: make_machine(ctx, True), quick=320, thorough=3200,
                steps={"quick": 25, "thorough": 40}),
    ]
