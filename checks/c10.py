"""C10 - result is independent of input channel and encoding; reads are pure."""
import io
import os
import pathlib
import shutil
import tempfile

import numpy as np
from hypothesis import strategies as st

from vlib import build, canon, expect, lastext, strategies as S
from vlib.api import Hyp, Outcome, attempt, is_raised
from vlib.filecheck import compare_with_expected, read_text, spec_summary

ID = "C10"
LEVEL = "exploration"
RULE = ("part 1: FileSpec with non-ASCII letters (drawn from the target codec's repertoire) in mnemonics, units, values, "
        "descriptions and ~Other text; the same text is supplied as path string, pathlib.Path, open text file, StringIO "
        "and multi-line string (~A last, or followed by the other header sections); on disk it is stored as utf-8-sig (autodetected), utf-8, utf-16 (BOM), utf-16-le, "
        "utf-16-be, latin-1, cp1252 (explicit encoding=) with LF, CRLF or CR line ends. Oracle: every channel yields "
        "the canonical content of read(StringIO(text)) and the expected reading of the spec (so every non-ASCII "
        "character is accounted for). part 2 (histories): operation lists over 2-3 texts: read(text, channel; path "
        "channels use a fresh path or ONE path written again with the next content in utf-8/utf-8-sig/utf-16/utf-16-le), mutate "
        "an earlier result (header value, curve sample, append/delete curve, set_data), write an earlier result, "
        "LASFile(); after every step each re-read of a text equals its first reading, every untouched result equals "
        "its snapshot and a fresh LASFile() equals the pristine default. Non-trivial: non-ASCII present and >= 2 "
        "channels x >= 2 encodings, or a history with a mutation between two reads of the same text.")
ASSUMPTIONS = [
    "encoding autodetection is only claimed for the UTF-8 BOM; every other codec is named with encoding=",
    "the multi-line-string channel needs more than one line and a first line that is not URL-like; CR-only line ends "
    "are used for files only (text-mode universal newlines), as the property states",
]

CODECS = {
    "utf-8-sig": dict(enc="utf-8-sig", kw={}),
    # a UTF-8 BOM is recognised whatever else the caller says about encodings
    "utf-8-sig+encoding=utf-8": dict(enc="utf-8-sig", kw={"encoding": "utf-8"}),
    "utf-8-sig+no-autodetect": dict(enc="utf-8-sig", kw={"autodetect_encoding": False}),
    "utf-8-sig+chardet": dict(enc="utf-8-sig", kw={"autodetect_encoding": "chardet"}),
    "utf-8": dict(enc="utf-8", kw={"encoding": "utf-8"}),
    "utf-16": dict(enc="utf-16", kw={"encoding": "utf-16"}),
    "utf-16-le": dict(enc="utf-16-le", kw={"encoding": "utf-16-le"}),
    "utf-16-be": dict(enc="utf-16-be", kw={"encoding": "utf-16-be"}),
    "latin-1": dict(enc="latin-1", kw={"encoding": "latin-1"}),
    "cp1252": dict(enc="cp1252", kw={"encoding": "cp1252"}),
}
LATIN1 = "éÉüÖñçåØßàÿÆþµ±°"
CP1252 = "éÉüÖñçåØß€žŠœŸ"
WIDE = "éÉüÖñçåØßαβΩλдЖяЫ深度米"
REPERTOIRE = {"latin-1": LATIN1, "cp1252": CP1252}
NL = {"LF": "\n", "CRLF": "\r\n", "CR": "\r"}


def canonical(las):
    return canon.from_las(las)


def oracle(case):
    if "ops" in case:
        return oracle_history(case)
    import lasio

    out = Outcome()
    spec = case["spec"]
    text = lastext.render(spec)  # LF
    mc = case.get("mnemonic_case", "upper")
    nonascii = not text.isascii()
    out.cls("non-ascii" if nonascii else "ascii")
    out.sample = dict(text=text[:500], variants=case["variants"])
    ref = read_text(text, mnemonic_case=mc)
    if is_raised(ref):
        out.fail("stringio-raises|" + ref.bucket, "%s\n%s" % (ref, text))
        return out
    cref = canonical(ref)
    d, _, _ = compare_with_expected(ref, spec, mnemonic_case=mc)
    if spec.get("other_ends_blank"):
        # how many empty lines at the very end of the file count as text is lasio's business; here only: every channel alike
        d = [x for x in d if x[0] != "Other.text"]
    if d:
        out.fail("differs-from-expected|%s" % d[0][0], canon.show(d) + "\n" + text)
        return out
    tmp = tempfile.mkdtemp(prefix="c10-")
    channels, encs = set(), set()
    try:
        for vi, (codec, nl, channel) in enumerate(case["variants"]):
            info = CODECS[codec]
            out.cls("codec-" + codec, "nl-" + nl, "channel-" + channel)
            channels.add(channel)
            encs.add(codec)
            kw = dict(mnemonic_case=mc)
            if channel in ("stringio", "string", "stringio-written"):
                # in-memory channels do no newline translation: CRLF text reaches lasio with its carriage returns
                mem = text.replace("\n", "\r\n") if nl == "CRLF" else text
                if channel == "stringio-written":
                    # a StringIO the caller has just filled with write(): its position is at the end
                    arg = io.StringIO()
                    arg.write(mem)
                else:
                    arg = io.StringIO(mem) if channel == "stringio" else mem
                las = attempt(lasio.read, arg, **kw)
            else:
                path = os.path.join(tmp, "f%d.las" % vi)
                with open(path, "w", encoding=info["enc"], newline="") as f:
                    f.write(text.replace("\n", NL[nl]))
                kw.update(info["kw"])
                if channel == "path":
                    las = attempt(lasio.read, path, **kw)
                elif channel == "Path":
                    las = attempt(lasio.read, pathlib.Path(path), **kw)
                else:  # open text file object
                    # the caller decodes (BOM handled by utf-8-sig); "fileobj-rawnl": opened with newline="" so that
                    # the line ends reach lasio untranslated (Python still splits lines at \r, \n and \r\n)
                    fobj = open(path, "r", encoding=info["enc"], newline=("" if channel == "fileobj-rawnl" else None))
                    if channel == "fileobj-peeked":
                        fobj.readline()  # the caller has looked at the first line: the file is not at position 0
                    try:
                        las = attempt(lasio.read, fobj, mnemonic_case=mc)
                    finally:
                        fobj.close()
            tag = "%s|%s|%s" % (channel, codec, nl)
            if is_raised(las):
                out.fail("channel-raises|%s|%s|%s" % (las.type, channel, codec), "%s\nvariant=%r\n%s" % (las, (codec, nl, channel), text))
                continue
            dd = canon.diff(canonical(las), cref, names=(tag, "StringIO"))
            if dd:
                out.fail("channel-differs|%s|%s" % (dd[0][0].split(".")[0], channel), "variant=%r\n%s\n%s" % ((codec, nl, channel), canon.show(dd), text))
    finally:
        shutil.rmtree(tmp, ignore_errors=True)
    out.nontrivial = nonascii and len(channels) >= 2 and len(encs) >= 2
    return out


@st.composite
def specs(draw, alphabet):
    """A small FileSpec whose text fields use letters from `alphabet` (plus ASCII)."""
    word = st.text(S.LETTERS + S.DIGITS + alphabet, min_size=1, max_size=8)
    phrase = st.lists(word, min_size=0, max_size=3).map(" ".join)
    v12 = draw(st.booleans())
    secs = [lastext.section("V", "~Version", [lastext.item("VERS", "", "1.2" if v12 else "2.0", draw(phrase)),
                                              lastext.item("WRAP", "", "NO", draw(phrase))])]
    wl = [lastext.item("STRT", "M", "1", "start"), lastext.item("STOP", "M", "2", "stop"), lastext.item("STEP", "M", "1", "step"),
          lastext.item("NULL", "", "-999.25", draw(phrase))]
    for i in range(draw(st.integers(1, 4))):
        wl.append(lastext.item("W%d" % i + draw(st.text(alphabet + S.LETTERS, max_size=3)), draw(st.text(alphabet + "m/", max_size=3)),
                               draw(phrase), draw(phrase)))
    if alphabet == WIDE and draw(st.integers(0, 3)) == 0:
        # digits outside ASCII are header TEXT like any other character: they are preserved, not turned into numbers
        wl.append(lastext.item("RUNNO", "", draw(st.sampled_from(["\uff11\uff12\uff13", "\u0663\u0664", "\u0967\u0968", "\uff17"])), draw(phrase)))
    secs.append(lastext.section("W", "~Well", wl))
    nc = draw(st.integers(1, 3))
    cl = [lastext.item("DEPT", "M", "", draw(phrase))] + [
        lastext.item("C%d" % j + draw(st.text(alphabet, max_size=2)), draw(st.text(alphabet + "m", max_size=3)), "", draw(phrase)) for j in range(1, nc)]
    secs.append(lastext.section("C", "~Curves", cl))
    if draw(st.booleans()):
        secs.append(lastext.section("P", "~Parameter", [lastext.item("P%d" % i, "", draw(phrase), draw(phrase)) for i in range(draw(st.integers(0, 3)))]))
    if draw(st.booleans()):
        # a section of the user's own: it is kept under its title, the same title on every channel
        secs.append(lastext.section("X", "~Drilling fluid" + draw(st.sampled_from(["", " data", " " + "".join(alphabet[:2])])),
                                    [lastext.item("MUD%d" % i, "", draw(phrase), draw(phrase)) for i in range(draw(st.integers(0, 2)))]))
    if draw(st.booleans()):
        secs.append(lastext.section("O", "~Other", [{"t": "text", "text": draw(phrase) or "note"} for _ in range(draw(st.integers(1, 2)))]))
    r = draw(st.integers(1, 4))
    asec = lastext.section("A", "~A", [lastext.row([str(i + 1)] + ["%d.%d" % (i, j) for j in range(1, nc)]) for i in range(r)], ncols=nc)
    if len(secs) > 3 and draw(st.booleans()):
        secs.insert(3, asec)  # header sections after the data: their place in the file is found again by position
    else:
        secs.append(asec)
    if draw(st.integers(0, 7)) == 0:
        # a first line longer than any file name can be: a multi-line string is still content, whatever its first line
        secs[0]["ttrail"] = " " + "-" * draw(st.sampled_from([300, 4200, 9000]))
    if secs[-1]["kind"] == "O" and draw(st.booleans()):
        # ~Other is the last section and ends with empty lines: they belong to its text in every channel
        secs[-1]["lines"] = secs[-1]["lines"] + [{"t": "blank", "text": ""}] * draw(st.integers(1, 2))
        return {"nl": "\n", "final_nl": draw(st.booleans()), "sections": secs, "other_ends_blank": True}
    return {"nl": "\n", "final_nl": draw(st.booleans()), "sections": secs}


@st.composite
def file_cases(draw):
    family = draw(st.sampled_from(["wide", "wide", "latin-1", "cp1252"]))
    if family == "wide":
        alphabet, codecs = WIDE, ["utf-8-sig", "utf-8", "utf-16", "utf-16-le", "utf-16-be", "utf-8-sig+encoding=utf-8",
                                  "utf-8-sig+no-autodetect", "utf-8-sig+chardet"]
    else:
        alphabet = REPERTOIRE[family]
        codecs = [family, "utf-8", "utf-8-sig", "utf-16", "utf-8-sig+encoding=utf-8", "utf-8-sig+no-autodetect"]
    spec = draw(specs(alphabet))
    if family == "wide" and draw(st.integers(0, 3)) == 0:
        # characters str.splitlines() breaks on but a file / StringIO does not: they are ordinary characters of the
        # text and must survive every channel (placed inside words of values, descriptions and ~Other text only)
        exotic = draw(st.sampled_from(["\u2028", "\u2029", "\x85", "\x0b", "\x0c", "\x1c", "\x1d", "\x1e"]))
        for sec in spec["sections"]:
            for ln in sec["lines"]:
                if ln["t"] == "item" and sec["kind"] in ("W", "P") and ln["m"] not in ("STRT", "STOP", "STEP", "NULL") and draw(st.booleans()):
                    ln["d"] = "ab" + exotic + "cd" + (" " + ln["d"] if ln["d"] else "")
                elif ln["t"] == "text" and draw(st.booleans()):
                    ln["text"] = "no" + exotic + "te " + ln["text"]
    variants = []
    for _ in range(draw(st.integers(2, 5))):
        ch = draw(st.sampled_from(["path", "Path", "fileobj", "stringio", "string", "stringio-written", "fileobj-peeked", "fileobj-rawnl"]))
        variants.append([draw(st.sampled_from(codecs)), draw(st.sampled_from(["LF", "CRLF", "CR"])), ch])
    return {"spec": spec, "variants": variants, "mnemonic_case": draw(st.sampled_from(["upper", "preserve", "lower"]))}


# ---------------------------------------------------------------------------------------
# histories


def deep_snapshot(las):
    from checks.c16 import snapshot

    return snapshot(las)


def oracle_history(case):
    import lasio

    out = Outcome()
    texts = [lastext.render(s) for s in case["texts"]]
    first = {}  # text index -> canonical content of its first read
    results = []  # [las, snapshot]
    pristine = deep_snapshot(lasio.LASFile())
    last_mut_step = {}
    shared_dtypes = {}
    tmp = tempfile.mkdtemp(prefix="c10h-")
    kinds = set()
    reuse_obj = None
    try:
        for step, op in enumerate(case["ops"]):
            k = op[0]
            kinds.add(k)
            if k == "read":
                ti = op[1] % len(texts)
                ch = op[2]
                fkey = ti
                if ch == "string-dtypes":
                    # one options object reused for every read of this text: a read must leave it as it found it
                    dt = shared_dtypes.setdefault(ti, {"DEPT": float, "NOSUCH": str, "GR": str})
                    before = dict(dt)
                    las = attempt(lasio.read, texts[ti], dtypes=dt)
                    kinds.add("read-with-shared-dtypes-dict")
                    if dt != before:
                        out.fail("read-changed-callers-options", "step %d: the dtypes dict given to read() was %r, is now %r" % (step, before, dt))
                        break
                    fkey = ("dtypes", ti)  # its own "first reading" (text curves differ from the default reading)
                elif ch == "string-policies":
                    # policies given as lists that mix a NAME with a literal substitution (the documented form): they
                    # hold for this call only
                    las = attempt(lasio.read, texts[ti], null_policy=["NULL", 9998],
                                  read_policy=["run-on(.)", ("9998", "7777")])
                    kinds.add("read-with-policy-lists")
                    fkey = ("policies", ti)
                elif ch == "reuse":
                    # LASFile.read() on an object that has read other files before: the sections this text has are read
                    # as by a fresh read (what becomes of sections only an earlier file had is not judged)
                    if reuse_obj is None:
                        reuse_obj = lasio.LASFile()
                    r = attempt(reuse_obj.read, io.StringIO(texts[ti]))
                    kinds.add("read-into-used-object")
                    if is_raised(r):
                        out.fail("history-read-raises|" + r.bucket, "step %d %r: %s\n%s" % (step, op, r, texts[ti]))
                        break
                    fr = attempt(lasio.read, texts[ti])
                    if is_raised(fr):
                        out.fail("history-read-raises|" + fr.bucket, "step %d %r: the fresh read for comparison raised %s\n%s" % (step, op, fr, texts[ti][:600]))
                        break
                    fresh = canonical(fr)
                    c = canonical(reuse_obj)
                    # a section the text does not have reads as empty in a fresh object and keeps the earlier file's content
                    # in a used one: only sections with content in the fresh reading are compared
                    keep = {kk for kk, v in fresh["sections"].items() if v.get("items") or v.get("text")}
                    c["sections"] = {kk: v for kk, v in c["sections"].items() if kk in keep}
                    fresh["sections"] = {kk: v for kk, v in fresh["sections"].items() if kk in keep}
                    d = canon.diff(c, fresh, names=("read-into-used-object#%d" % step, "fresh-read"))
                    if d:
                        out.fail("reuse-read-differs|%s" % d[0][0], "step %d: reading text %d into a LASFile that has read other files gave a "
                                 "different result after %r\n%s\n%s" % (step, ti, case["ops"][:step], canon.show(d), texts[ti]))
                        break
                    continue
                elif ch == "stringio":
                    las = attempt(lasio.read, io.StringIO(texts[ti]))
                elif ch == "string":
                    las = attempt(lasio.read, texts[ti])
                else:
                    # the same path is written again and again with other content and other encodings: a read is a
                    # function of what the file holds NOW
                    shared = len(op) > 3 and op[3]
                    info = CODECS[op[4] if len(op) > 4 else "utf-8"]
                    path = os.path.join(tmp, "shared.las" if shared else "t%d_%d.las" % (ti, step))
                    with open(path, "w", encoding=info["enc"], newline="") as f:
                        f.write(texts[ti])
                    if shared:
                        kinds.add("read-rewritten-path")
                    las = attempt(lasio.read, path if ch == "path" else pathlib.Path(path), **info["kw"])
                if is_raised(las):
                    out.fail("history-read-raises|" + las.bucket, "step %d %r: %s\n%s" % (step, op, las, texts[ti]))
                    break
                c = canonical(las)
                want = case["texts"][ti].get("expect_data")
                if want is not None and fkey == ti:
                    # state kept between reads (even between cases of one process) shows against a fixed expectation
                    got = [[float(x) for x in cv.data] if np.asarray(cv.data).dtype.kind == "f" else [str(x) for x in cv.data] for cv in las.curves]
                    if got != want:
                        out.fail("read-depends-on-earlier-reads|data", "step %d: data read as %r, expected %r after %r\n%s"
                                 % (step, got, want, case["ops"][:step], texts[ti]))
                        break
                wantc = case["texts"][ti].get("expect_curves")
                if wantc is not None:
                    gotc = [[cv.original_mnemonic, cv.unit] for cv in las.curves]
                    if gotc != wantc:
                        out.fail("read-depends-on-earlier-reads|curves", "step %d: curves read as %r, expected %r after %r\n%s"
                                 % (step, gotc, wantc, case["ops"][:step], texts[ti]))
                        break
                if fkey in first:
                    d = canon.diff(c, first[fkey], names=("read#%d" % step, "first-read"))
                    if d:
                        out.fail("reread-differs|%s" % d[0][0], "step %d: reading text %d again gave a different result after %r\n%s\n%s"
                                 % (step, ti, case["ops"][:step], canon.show(d), texts[ti]))
                        break
                else:
                    first[fkey] = c
                results.append([las, deep_snapshot(las)])
            elif k == "new":
                las = lasio.LASFile()
                snap = deep_snapshot(las)
                if snap != pristine:
                    out.fail("fresh-lasfile-not-pristine", "step %d: LASFile() differs from the pristine default after %r" % (step, case["ops"][:step]))
                    break
                results.append([las, snap])
            elif results:
                ri = op[1] % len(results)
                las = results[ri][0]
                if k == "set_header":
                    sec = las.well if op[2] == "W" else las.params if len(las.params) else las.well
                    if len(sec):
                        sec[op[3] % len(sec)].value = op[4]
                        sec[op[3] % len(sec)].descr = "edited"
                elif k == "set_sample" and len(las.curves) and len(las.curves[0].data):
                    cv = las.curves[op[2] % len(las.curves)]
                    if np.asarray(cv.data).dtype.kind == "f":
                        cv.data[op[3] % len(cv.data)] = -12345.5
                elif k == "append_curve" and len(las.curves):
                    n = len(las.curves[0].data)
                    las.append_curve("NEW%d" % step, np.arange(n, dtype=float), unit="x", descr="appended")
                elif k == "delete_curve" and len(las.curves) > 1:
                    las.delete_curve(ix=len(las.curves) - 1)
                elif k == "set_data" and len(las.curves) and len(las.curves[0].data):
                    n, c = len(las.curves[0].data), len(las.curves)
                    las.set_data(np.full((n, c), 7.0))
                elif k == "default_item":
                    if "COMP" in las.well:
                        las.well["COMP"].value = "mutated company"
                    las.version["VERS"].descr = "mutated"
                elif k == "write":
                    w = attempt(build.write_text, las, **op[2])
                    kinds.add("write")
                else:
                    continue
                results[ri][1] = deep_snapshot(las)
                last_mut_step[ri] = step
            # invariant: every result equals its snapshot (mutations only through the object they were applied to)
            for j, (l, snap) in enumerate(results):
                if deep_snapshot(l) != snap:
                    out.fail("other-result-changed|" + k, "step %d %r changed result #%d which it did not touch\nops=%r" % (step, op, j, case["ops"][:step + 1]))
                    break
            if out.violations:
                break
    finally:
        shutil.rmtree(tmp, ignore_errors=True)
    out.cls(*["op-" + x for x in sorted(kinds)])
    muts = {"set_header", "set_sample", "append_curve", "delete_curve", "set_data", "default_item", "write"}
    reads = [i for i, op in enumerate(case["ops"]) if op[0] == "read"]
    out.nontrivial = any(
        case["ops"][a][1] % len(texts) == case["ops"][b][1] % len(texts) and any(case["ops"][m][0] in muts for m in range(a + 1, b))
        for ai, a in enumerate(reads) for b in reads[ai + 1:])
    out.sample = dict(ops=case["ops"])
    return out


OP = st.one_of(
    st.tuples(st.just("read"), st.integers(0, 2), st.sampled_from(["stringio", "string", "path", "Path", "string-dtypes", "string-policies", "reuse", "reuse"])),
    st.tuples(st.just("read"), st.integers(0, 2), st.sampled_from(["path", "Path"]), st.booleans(),
              st.sampled_from(["utf-8", "utf-8-sig", "utf-16", "utf-8-sig+encoding=utf-8", "utf-16-le", "utf-8-sig+no-autodetect"])),
    st.tuples(st.just("read"), st.integers(0, 2), st.sampled_from(["path", "Path"]), st.just(True),
              st.sampled_from(["utf-8", "utf-8-sig", "utf-16", "utf-8-sig+encoding=utf-8", "utf-16-le", "utf-8-sig+no-autodetect"])),
    st.tuples(st.just("new")),
    st.tuples(st.just("set_header"), st.integers(0, 5), st.sampled_from(["W", "P"]), st.integers(0, 9), st.sampled_from(["x", 5, 2.5])),
    st.tuples(st.just("set_sample"), st.integers(0, 5), st.integers(0, 5), st.integers(0, 9)),
    st.tuples(st.just("append_curve"), st.integers(0, 5)),
    st.tuples(st.just("delete_curve"), st.integers(0, 5)),
    st.tuples(st.just("set_data"), st.integers(0, 5)),
    st.tuples(st.just("default_item"), st.integers(0, 5)),
    st.tuples(st.just("write"), st.integers(0, 5), st.sampled_from([{}, {"version": 1.2}, {"version": 2, "wrap": True}, {"wrap": False, "fmt": "%.2f"}])),
).map(list)


@st.composite
def history_cases(draw):
    texts = [draw(specs(WIDE)) for _ in range(draw(st.integers(2, 3)))]
    special = False
    if draw(st.integers(0, 2)) == 0:
        # two files that exercise the reader's substitution tables (module-level state): a comma-delimited one and one
        # with decimal commas; reading either must not change how the other, or any later file, is read
        cv = [("DEPT", "M", "", "d"), ("GR", "", "", "g"), ("RHOB", "", "", "r")]
        comma = lastext.simple_spec(cv, [["1", "2.5", "3"], ["2", "3.5", "4"]], dlm="COMMA")
        for ln in comma["sections"][-1]["lines"]:
            ln["seps"] = [",", ","]
        decimal = lastext.simple_spec(cv, [["1", "2,5", "3,25"], ["2", "3,5", "4,75"]])
        comma["expect_data"] = [[1.0, 2.0], [2.5, 3.5], [3.0, 4.0]]
        decimal["expect_data"] = [[1.0, 2.0], [2.5, 3.5], [3.25, 4.75]]
        pair = [comma, decimal]
        if draw(st.booleans()):
            # two files whose ~Curves lines contain '..' in different places (mnemonic ending in a period / ellipsis in the
            # description): how one is parsed must not depend on the other having been read before
            dotted = lastext.simple_spec([("DEPT", "M", "", "d"), ("Cond.", "MS/M", "", "conductivity")], [["1", "2"], ["2", "3"]])
            for ln in dotted["sections"][2]["lines"]:
                if ln.get("m") == "Cond.":
                    ln["p"] = ["", "", " ", " ", " ", ""]  # `Cond..MS/M  : conductivity`
            ellipsis = lastext.simple_spec([("DEPT", "M", "", "d"), ("GR", "GAPI", "45", "gamma ray etc..")], [["1", "2"], ["2", "3"]])
            dotted["expect_curves"] = [["DEPT", "M"], ["COND.", "MS/M"]]  # default mnemonic_case='upper'
            ellipsis["expect_curves"] = [["DEPT", "M"], ["GR", "GAPI"]]
            pair = [dotted, ellipsis]
        which = draw(st.integers(0, 2))
        if which == 0:
            # a file whose samples look like what a caller of an EARLIER read named in its own policy lists
            nines = lastext.simple_spec([("DEPT", "M", "", "d"), ("GR", "", "", "g"), ("LITH", "", "", "l")],
                                        [["1", "9998", "abc"], ["2", "4", "def"]])
            nines["expect_data"] = [[1.0, 2.0], [9998.0, 4.0], ["abc", "def"]]
            plain = lastext.simple_spec([("DEPT", "M", "", "d"), ("GR", "", "", "g")], [["1", "9998"], ["2", "5"]])
            plain["expect_data"] = [[1.0, 2.0], [9998.0, 5.0]]
            pair = [nines, plain]
        texts = texts[:1] + draw(st.permutations(pair))
        special = True
    ops = draw(st.lists(OP, min_size=4, max_size=14))
    if special:
        ch = st.sampled_from(["stringio", "string", "path"])
        ops += [["read", draw(st.integers(1, 2)), "string-policies"]]
        ops += [["read", k, draw(ch)] for k in draw(st.permutations([1, 2, 1, 2]))]
    return {"texts": texts, "ops": ops}


def parts(tier):
    return [
        Hyp("channels-and-encodings", file_cases, quick=1500, thorough=20000),
        Hyp("histories", history_cases, quick=1500, thorough=15000),
    ]
