"""C05 - every line is attributed to the section whose title precedes it."""
from hypothesis import strategies as st

from vlib import canon, lastext, strategies as S
from vlib.api import Enum, Hyp, Outcome, is_raised
from vlib.filecheck import compare_with_expected, read_spec, spec_summary

ID = "C05"
LEVEL = "exploration"
RULE = ("case = FileSpec with ~V first, a permutation of {~W, ~C, optional ~P, optional ~O, 0..3 custom sections} "
        "and ~A inserted anywhere after ~V; title spellings {letter, word, word + trailing text} x {upper, lower, "
        "mixed case} (1 in 8 indented by blanks or a tab); section sizes 0..4 including an empty ~A and an empty ~C; every item line carries a unique "
        "tag; ~C/~P/custom sections may contain items named VERS (other version), WRAP (YES), DLM (COMMA), NULL "
        "(a value present in the data). Oracle: expected reading of the spec: every section holds exactly its own "
        "items in order under its documented key, custom sections under their title, ~W parsed by the ~V version "
        "only, data = generated matrix with NaN exactly at non-index cells equal to the ~W NULL. Non-trivial: "
        "order != V,W,C,P,O,A, or ~A not last, or a lower-case title, or a steering name in a non-steering "
        "section, or a custom section.")
ASSUMPTIONS = [
    "titles contain no '_' (LAS 3 section routing: `_Data`, `_Definition`, `_Parameter` suffixes) except the spellings "
    "`_DATA` / `_data`, which are ordinary custom sections; custom titles begin with a letter other than V/W/C/P/O/A",
    "one section of each standard kind per file; ~Other receives plain text lines (no blank or comment lines)",
]

TITLES = {
    "V": ["~V", "~Version", "~VERSION INFORMATION", "~Version Information Section ---", "~v", "~version", "~vERSION info"],
    "W": ["~W", "~Well", "~WELL INFORMATION BLOCK", "~Well ------", "~w", "~well information", "~wELL"],
    "C": ["~C", "~Curves", "~CURVE INFORMATION", "~Curve Information ----", "~c", "~curve information", "~cURVES"],
    "P": ["~P", "~Params", "~PARAMETER INFORMATION", "~Parameter ---", "~p", "~parameter information block", "~pARAM"],
    "O": ["~O", "~Other", "~OTHER INFORMATION", "~Other ----", "~o", "~other information", "~oTHER", "~Oth", "~Others", "~O1 remarks", "~OTH INFO"],
    "A": ["~A", "~ASCII", "~ASCII LOG DATA", "~A  DEPT  GR  NPHI", "~Ascii -----", "~a", "~ascii log data", "~aSCII"],
    "X": ["~Tops", "~TOPS SECTION", "~Z", "~extra special information", "~Remarks", "~SPECIAL INFORMATION", "~tops",
          "~remarks block", "~Formation Tops ---", "~q", "~Drilling", "~TOPS_DATA", "~Mud_data"],
}
STEER = [("VERS", "{otherv}"), ("WRAP", "YES"), ("DLM", "COMMA"), ("NULL", "{cell}"), ("Vers", "{otherv}"),
         ("null", "{cell}"), ("wrap", "YES"), ("dlm", "COMMA")]


def standard_order(kinds):
    want = [k for k in "VWCPOA" if k in kinds]
    return [k for k in kinds if k in "VWCPOA"] == want and "X" not in kinds


def oracle(case):
    out = Outcome()
    spec = case["spec"]
    mc = case.get("mnemonic_case", "upper")
    kinds = [s["kind"] for s in spec["sections"]]
    lower = any(s["title"][1:2].islower() for s in spec["sections"])
    steer = case.get("steer", [])
    feats = []
    if not standard_order(kinds):
        feats.append("nonstandard-order")
    if kinds[-1] != "A":
        feats.append("A-not-last")
    if lower:
        feats.append("lowercase-title")
    if steer:
        feats.append("steering-name-elsewhere")
    if "X" in kinds:
        feats.append("custom-section")
    a = [s for s in spec["sections"] if s["kind"] == "A"][0]
    if not any(ln["t"] == "row" for ln in a["lines"]):
        feats.append("empty-A")
    out.cls(*feats)
    out.cls("v" + lastext.spec_version(spec))
    out.nontrivial = bool(feats)
    out.sample = spec_summary(spec, 900)
    kw = {"ignore_data": True} if case.get("ignore_data") else {}
    if kw:
        out.cls("ignore_data")
    if case.get("empty_comment_marker"):
        # '#' plus an EMPTY marker: no line starts with "nothing", so this reads like the default ('#',)
        kw["ignore_comments"] = ("#", "")
        out.cls("ignore_comments-with-empty-marker")
    if case.get("reuse"):
        # the same LASFile object has read another file before (comma-delimited, wrapped, version 1.2, other NULL):
        # what steers the parsing of THIS file is this file alone
        import io
        import lasio
        from vlib.api import attempt
        prior = ("~Version\nVERS. 1.2 : v\nWRAP. YES : w\nDLM. COMMA : d\n~Well\nSTRT.FT 1 : s\nSTOP.FT 2 : s\nSTEP.FT 1 : s\n"
                 "NULL. 12.1 : n\nCOMP. prior company : c\n~Curves\nDEPT.FT : d\nAAA. : a\n~A\n1\n12.1\n2\n3\n")
        # (only sections every generated file has: what becomes of sections the new file lacks is not part of the statement;
        # when the new file has an ~Other section of its own, the prior file has one too - its text belongs to that file)
        if any(s_["kind"] == "O" for s_ in spec["sections"]):
            prior = prior.replace("~A\n", "~Other\nremark of the prior file\nsecond remark 1 2 3\n~A\n")
            out.cls("prior-file-had-other-text")
        obj = attempt(lasio.read, prior)
        las = obj if is_raised(obj) else attempt(obj.read, io.StringIO(lastext.render(spec)), mnemonic_case=mc, engine=case.get("engine", "numpy"), **kw)
        if not is_raised(las):
            las = obj
        out.cls("second-read-into-the-same-object")
    else:
        las = read_spec(spec, mnemonic_case=mc, engine=case.get("engine", "numpy"), **kw)
    lowtag = "lower-title" if lower else "upper"
    if is_raised(las):
        out.fail("read-raises|%s|%s" % (las.bucket, lowtag), "%s\n%s" % (las, spec_summary(spec)))
        return out
    diffs, got, exp = compare_with_expected(las, spec, mnemonic_case=mc)
    if case.get("ignore_data"):
        # no data were read: curves keep their declared items (no unnamed curves are created), arrays are not compared
        ncur = sum(1 for s_ in spec["sections"] if s_["kind"] == "C" for ln in s_["lines"] if ln["t"] == "item")
        diffs = [x for x in diffs if not x[0].startswith("data") and not (x[0] == "Curves.len" and len(got["sections"]["Curves"]["items"]) == ncur)]
    if diffs:
        loc = diffs[0][0]
        tag = lowtag if lower else ("steer:" + ",".join(sorted({m.upper() for k, m in steer})) if steer else
                                    ("A-not-last" if kinds[-1] != "A" else "order"))
        out.fail("%s|%s" % (loc, tag), canon.show(diffs) + "\n--- file ---\n" + spec_summary(spec))
    return out


@st.composite
def specs(draw, lower_titles=True, steering=True):
    v12 = draw(st.booleans())
    vers, otherv = ("1.2", "2.0") if v12 else ("2.0", "1.2")
    tag = [0]

    def t(prefix):
        tag[0] += 1
        return "%s%d" % (prefix, tag[0])

    def title(kind):
        opts = TITLES[kind]
        if not lower_titles:
            opts = [o for o in opts if not o[1].islower()]
        ttl = draw(st.sampled_from(opts))
        if draw(st.integers(0, 7)) == 0:
            # an indented title line is still the title of its section (reader: title lines are recognised after stripping)
            ttl = draw(st.sampled_from([" ", "  ", "\t"])) + ttl
        return ttl

    ncurves = draw(st.integers(0, 4))
    nrows = draw(st.sampled_from([0, 1, 2, 3, 3]))
    c = ncurves if ncurves else draw(st.integers(1, 3))
    steer_used = []
    # data cells: row i col j -> distinct values; one of them doubles as a fake NULL elsewhere
    cells = [["%d.%d" % (10 + i, j + 1) for j in range(c)] for i in range(nrows)]
    fake_null = cells[-1][-1] if nrows and c > 1 else "77.7"
    real_null = "-999.25"
    if nrows and c > 1 and draw(st.booleans()):
        cells[0][1] = real_null

    def steer_item(kind):
        # ~Well may hold items called VERS / WRAP / DLM and ~Version one called NULL: each steers from its OWN section only
        pool = STEER if kind not in ("V", "W") else [x for x in STEER if (x[0].upper() == "NULL") == (kind == "V")]
        m, v = draw(st.sampled_from(pool))
        v = v.format(otherv=otherv, cell=fake_null)
        steer_used.append([kind, m])
        return lastext.item(m, "", v, t("steer"))

    vsec = lastext.section("V", title("V"), [lastext.item("VERS", "", vers, t("dv")), lastext.item("WRAP", "", "NO", t("dw"))])
    wl = [lastext.item("STRT", "M", "10.1", t("ds")), lastext.item("STOP", "M", "12.1", t("dp")),
          lastext.item("STEP", "M", "1", t("de")), lastext.item("NULL", "", real_null, t("dn"))]
    for _ in range(draw(st.integers(0, 3))):
        wl.append(lastext.item(t("W"), draw(st.sampled_from(["", "M", "ft"])), t("wv"), t("wd")))
    if steering and draw(st.integers(0, 7)) == 0:
        wl.append(steer_item("W"))
    if steering and draw(st.integers(0, 7)) == 0:
        vsec["lines"].append(steer_item("V"))
    wsec = lastext.section("W", title("W"), wl)
    cl = []
    for k in range(ncurves):
        if steering and k > 0 and draw(st.integers(0, 7)) == 0:
            cl.append(steer_item("C"))
        else:
            cl.append(lastext.item(t("C"), draw(st.sampled_from(["", "M", "GAPI"])), t("cv") if draw(st.booleans()) else "", t("cd")))
    csec = lastext.section("C", title("C"), cl)
    others = [wsec, csec]
    if draw(st.booleans()):
        pl = []
        for _ in range(draw(st.integers(0, 4))):
            if steering and draw(st.integers(0, 4)) == 0:
                pl.append(steer_item("P"))
            else:
                pl.append(lastext.item(t("P"), draw(st.sampled_from(["", "DEGC"])), t("pv"), t("pd")))
        others.append(lastext.section("P", title("P"), pl))
    if draw(st.booleans()):
        ol = [{"t": "text", "text": draw(st.sampled_from([t("note "), "MNEM.UNIT  value : descr " + t("o"), "1.0 2.0 3.0",
                                                        t("free text "), "VERS. 1.2 : fake", "NULL. 10.1 : fake",
                                                        "#1 tool stuck " + t("h"), "#----- " + t("r")]))}
              for _ in range(draw(st.integers(0, 3)))]
        if len(ol) >= 2 and draw(st.integers(0, 2)) == 0:
            # a blank line between two lines of ~Other is part of the text
            ol.insert(draw(st.integers(1, len(ol) - 1)), {"t": "blank", "text": draw(st.sampled_from(["", "  "]))})
        others.append(lastext.section("O", title("O"), ol))
    used_titles = set()
    for _ in range(draw(st.sampled_from([0, 0, 1, 1, 2, 3]))):
        tt = title("X")
        if tt.strip()[1:].lower() in used_titles:
            continue
        used_titles.add(tt.strip()[1:].lower())
        xl = []
        for _ in range(draw(st.integers(0, 3))):
            if steering and draw(st.integers(0, 3)) == 0:
                xl.append(steer_item("X"))
            else:
                xl.append(lastext.item(t("X"), draw(st.sampled_from(["", "M"])), t("xv"), t("xd")))
        others.append(lastext.section("X", tt, xl))
    others = draw(st.permutations(others))
    asec = lastext.section("A", title("A"), [lastext.row(r) for r in cells], ncols=c)
    pos = draw(st.one_of(st.just(len(others)), st.integers(0, len(others))))
    secs = [vsec] + list(others[:pos]) + [asec] + list(others[pos:])
    # what the last line of a section looks like: optional trailing blank/comment line (not in ~O)
    for s in secs:
        if s["kind"] != "O" and draw(st.integers(0, 5)) == 0:
            s["lines"].append(draw(st.sampled_from([{"t": "blank", "text": ""}, {"t": "comment", "text": "# end"},
                                                    {"t": "blank", "text": "   "}])))
    spec = {"nl": draw(st.sampled_from(["\n", "\n", "\r\n"])), "final_nl": draw(st.sampled_from([True, True, False])),
            "sections": secs}
    case = {"spec": spec, "mnemonic_case": draw(st.sampled_from(["upper", "preserve", "lower"])),
            "engine": draw(st.sampled_from(["numpy", "normal"])), "steer": steer_used}
    if draw(st.integers(0, 7)) == 0:
        case["ignore_data"] = True  # header sections are attributed the same way when the data are not wanted
    elif draw(st.integers(0, 5)) == 0:
        case["reuse"] = True
    if draw(st.integers(0, 9)) == 0:
        case["empty_comment_marker"] = True
    return case


def title_grid(tier):
    """Every title spelling of every kind (others in canonical upper-case spelling), A last and A second."""
    base_items = {
        "V": [lastext.item("VERS", "", "2.0", "dv"), lastext.item("WRAP", "", "NO", "dw")],
        "W": [lastext.item("STRT", "M", "1", "ds"), lastext.item("STOP", "M", "2", "dp"), lastext.item("STEP", "M", "1", "de"),
              lastext.item("NULL", "", "-999.25", "dn"), lastext.item("WELL", "", "w1", "wd1")],
        "C": [lastext.item("DEPT", "M", "", "cd1"), lastext.item("GR", "GAPI", "", "cd2")],
        "P": [lastext.item("BHT", "DEGC", "35.5", "pd1")],
        "X": [lastext.item("TOPA", "M", "12.5", "xd1")],
    }
    for kind in "VWCPOAX":
        for ttl in TITLES[kind]:
            for a_pos in ("last", "second"):
                secs = []
                for k in "VWCPXO":
                    title = ttl if k == kind else TITLES[k][1]
                    if k == "O":
                        secs.append(lastext.section("O", title, [{"t": "text", "text": "note one"}, {"t": "text", "text": "2 3 4"}]))
                    else:
                        secs.append(lastext.section(k, title, [dict(x) for x in base_items[k]]))
                asec = lastext.section("A", ttl if kind == "A" else "~ASCII", [lastext.row(["1", "5"]), lastext.row(["2", "-999.25"])], ncols=2)
                if a_pos == "last":
                    secs.append(asec)
                else:
                    secs.insert(1, asec)
                for mc in ("upper", "preserve"):
                    yield {"spec": {"nl": "\n", "final_nl": True, "sections": secs}, "mnemonic_case": mc, "engine": "numpy", "steer": []}


def parts(tier):
    return [
        Enum("title-spellings-grid", title_grid),
        Hyp("section-permutations", specs, quick=10000, thorough=100000),
    ]
