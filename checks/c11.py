"""C11 - lasio's own output is a fixed point of read -> write."""
from hypothesis import strategies as st

from vlib import build, canon, inputs
from vlib.api import Enum, Hyp, Outcome, attempt, is_raised
from vlib.filecheck import read_text

ID = "C11"
LEVEL = "exploration"
RULE = ("inputs: every example file lasio can read and write (x 3 writer option sets), generated LASFiles (C03 header "
        "generator + odd units such as .1IN / hh:mm / 1000 lbf / bracketed, duplicated and blank mnemonics, empty "
        "values, long fields, NaN samples, text curves incl. empty samples, samples with inner / trailing blanks or one "
        "kind of quote) and generated texts (C05 section permutations), each with a "
        "drawn writer option set and 2..4 cycles. Oracle: t1 = write(read(x)); r1 = read(t1); then for k = 2..cycles "
        "t_k = write(r_(k-1)), r_k = read(t_k) must succeed and canonical content of r_k == r_1 (header values "
        "numerically, curve data exactly, NaN == NaN). Non-trivial: duplicate or blank mnemonic, odd unit, empty "
        "value with unit, wrapped output, NaN or text samples present.")
ASSUMPTIONS = [
    "inputs that lasio cannot read, or cannot write the first time, are counted as rejected (outside the property)",
    "the same read options (mnemonic_case) and writer options are used in every cycle",
    "objects whose ~Version states WRAP twice written with wrap=True (open finding D49) are excluded by construction and counted; "
    "text samples holding both quote characters (open finding D41) are excluded by construction and counted; the "
    "example-corpus cases and the stored replay still report it",
]


def features(las, opts):
    f = []
    try:
        for name, sec in las.sections.items():
            if isinstance(sec, str):
                continue
            for it in sec:
                if it.mnemonic != it.original_mnemonic:
                    f.append("dup-or-blank-mnemonic")
                u = str(it.unit)
                if u and (u[0] in ".([" or " " in u or ":" in u or u.isdigit()):
                    f.append("odd-unit")
                if u and (it.value is None or it.value == "") and name in ("Well", "Parameter"):
                    f.append("empty-value-with-unit")
        import numpy as np
        for c in las.curves:
            if c.data.dtype.kind == "f" and np.isnan(c.data).any():
                f.append("nan-samples")
            if c.data.dtype.kind in "US":
                f.append("text-curve")
    except Exception:  # noqa
        pass
    if opts.get("wrap") or (opts.get("wrap") is None and str(getattr(las.version, "WRAP", None) and las.version["WRAP"].value) == "YES"):
        f.append("wrapped")
    return sorted(set(f))


def oracle(case):
    out = Outcome()
    src = case["src"]
    opts = dict(case.get("opts", {}))
    rk = dict(case.get("read_kw", {}))
    out.cls("src-" + inputs.kind(src))
    out.sample = dict(src=src if "file" in src else inputs.kind(src), opts=opts, cycles=case.get("cycles", 2))
    las0 = inputs.load(src, **rk)
    if is_raised(las0):
        out.rejected = True
        out.cls("unreadable")
        return out
    if text_unquotable(las0):
        out.excluded = True  # open finding D41 (what is left of D17 after its repair)
        out.cls("excluded:text-sample-with-both-quote-kinds")
        if "file" not in src and not case.get("force"):
            return out
    if text_hit_by_subs(las0):
        out.excluded = True  # open finding D44
        out.cls("excluded:text-sample-digit-hyphen-or-comma-digit")
        if "file" not in src and not case.get("force"):
            return out
    twice_wrapped = steering_twice_and_wrapped(las0, opts)
    if twice_wrapped:
        out.excluded = True  # open finding D49
        out.cls("excluded:WRAP-stated-twice-and-output-wrapped")
        if "file" not in src and not case.get("force"):
            return out
    if text_with_blanks(las0):
        out.cls("text-sample-with-blanks")
    feats = features(las0, opts)
    out.cls(*feats)
    out.nontrivial = bool(feats)
    t1 = attempt(build.write_text, las0, **opts)
    if is_raised(t1):
        out.rejected = True
        out.cls("unwritable:" + t1.type)
        return out
    r_prev = read_text(t1, **rk)
    tag = dlm_tag(las0) + "|" + ("text-with-blanks" if text_with_blanks(las0) else "text-curve" if "text-curve" in feats else "numeric")
    if is_raised(r_prev):
        out.fail("text-sample-with-both-quote-kinds-written-verbatim" if text_unquotable(las0) else "text-sample-rewritten-by-data-line-substitutions" if text_hit_by_subs(las0) else "text-sample-with-blanks-written-unquoted" if text_with_blanks(las0) else "reread-raises|%s|%s" % (r_prev.bucket, tag), "lasio cannot read its own output: %s\n%s\n--- written text ---\n%s"
                 % (r_prev, inputs.describe(src)[:600], t1[:2500]))
        return out
    c1 = canon.from_las(r_prev)
    for k in range(2, case.get("cycles", 2) + 1):
        tk = attempt(build.write_text, r_prev, **opts)
        if is_raised(tk):
            out.fail("rewrite-raises|%s|%s" % (tk.bucket, tag), "cycle %d: writing the re-read file raised %s\n%s\n--- text of cycle %d ---\n%s"
                     % (k, tk, inputs.describe(src)[:600], k - 1, t1[:2500]))
            return out
        rk_las = read_text(tk, **rk)
        if is_raised(rk_las):
            out.fail("text-sample-rewritten-by-data-line-substitutions" if text_hit_by_subs(las0) else "reread-raises|%s|%s" % (rk_las.bucket, tag),
                     "cycle %d: %s\n--- text ---\n%s" % (k, rk_las, tk[:2500]))
            return out
        ck = canon.from_las(rk_las)
        d = canon.diff(ck, c1, names=("cycle%d" % k, "cycle1"))
        if d:
            out.fail("wrapped-output-with-WRAP-stated-twice-reread-as-unwrapped" if twice_wrapped else "drift|%s|%s" % (d[0][0], cause(d, c1, ck, tag)), "cycle %d differs from cycle 1 (opts=%r)\n%s\n%s\n--- text cycle 1 ---\n%s\n--- text cycle %d ---\n%s"
                     % (k, opts, canon.show(d), inputs.describe(src)[:400], t1[:2000], k, tk[:2000]))
            return out
        r_prev, t1 = rk_las, tk
    return out


def numeric_unit(las):
    """An item whose unit is purely numeric and is followed by a value on the written line (former finding D34, fixed)."""
    for name, sec in las.sections.items():
        if isinstance(sec, str):
            continue
        for it in sec:
            if str(it.unit).isdigit() and (str(it.value) != "" or str(it.descr) != ""):
                return True
    return False


def steering_twice_and_wrapped(las, opts):
    """~Version holds two items called WRAP and the output is wrapped: the reader finds neither of the two (a name held twice
    is numbered WRAP:1/WRAP:2) and reads the wrapped data as one depth step per line (open finding D49)."""
    if not opts.get("wrap"):
        return False
    try:
        n = sum(1 for it in las.version if str(it.original_mnemonic).upper() == "WRAP")
    except Exception:  # noqa
        return False
    return n >= 2


def text_with_blanks(las):
    for c in las.curves:
        if c.data.dtype.kind in "USO":
            for x in c.data:
                if isinstance(x, str) and (x == "" or any(ch.isspace() for ch in x)):
                    return True
    return False


def text_hit_by_subs(las):
    """A text sample with a digit on both sides of a hyphen or comma is rewritten by the reader's data-line
    substitutions (run-on hyphens, decimal comma), which know nothing about text columns (open finding D44)."""
    import re

    for c in las.curves:
        if c.data.dtype.kind in "USO":
            for x in c.data:
                if isinstance(x, str) and re.search(r"\d[-,]\d", x):
                    return True
    return False


def text_unquotable(las):
    """A text sample holding both quote characters cannot be quoted by the writer (open finding D41)."""
    for c in las.curves:
        if c.data.dtype.kind in "USO":
            for x in c.data:
                if isinstance(x, str) and '"' in x and "'" in x:
                    return True
    return False


def dlm_tag(las):
    try:
        d = las.version["DLM"].value
        return "dlm-" + str(d)
    except Exception:  # noqa
        return "dlm-none"


def cause(d, c1, ck, tag):
    loc = d[0][0]
    if loc.endswith(".unit") or loc.endswith(".orig"):
        return "unit-mnemonic-migration"
    return tag


def corpus_cases(tier):
    optsets = [{}, {"version": 1.2, "wrap": True}, {"version": 2, "wrap": False, "fmt": "%.3f", "mnemonics_header": True},
               {"column_fmt": {"0": "%.1f"}}, {"fmt": "%.0f"}]  # an index format coarser than the file's own index values
    for f in inputs.corpus_files():
        for o in optsets:
            for rk in ({}, {"mnemonic_case": "preserve"}):
                yield {"src": {"file": f}, "opts": o, "cycles": 3, "read_kw": rk}


@st.composite
def desc_cases(draw):
    desc = draw(inputs.descs())
    from vlib.refparse import classify
    for sec in ("well", "params", "version"):
        for row in desc.get(sec, []):
            if row[0].strip() == "" and row[2][0] == "s" and classify(row[2][1])[0] in ("float", "either"):
                # a blank-mnemonic line cannot carry a period: a value that becomes a float is written as '1.5' next time
                row[2] = ["s", "x"]
    for row in desc["well"]:
        # case variants of STRT/STOP/STEP/NULL would be duplicates of the real items after a case-normalising read:
        # such a file can be read but not written again (no item 'STRT'), i.e. it is outside the property's domain
        if row[0].upper() in ("STRT", "STOP", "STEP", "NULL", "VERS", "WRAP", "DLM"):
            row[0] = row[0] + "X"
    twice = False
    if draw(st.integers(0, 7)) == 0:
        # a file that states WRAP twice: the section must not grow by one WRAP line per cycle
        desc["version"] = list(desc.get("version", [])) + [["WRAP", "", ["s", "NO"], "stated again"]]
        twice = True
    if draw(st.integers(0, 5)) == 0 and not any(x == "nan" for cv in desc["curves"] for x in cv[4]):
        # a second NULL line (exact spelling) is writable as long as no sample needs the marker: in the 1.2 layout the
        # duplicate must be laid out like the first one
        desc["well"].append(["NULL", "", ["s", draw(st.sampled_from(["-999.25", "-9999", "none"]))], "second null line"])
    opts = dict(draw(inputs.WRITER_OPTS))
    if twice:
        opts["wrap"] = opts.get("wrap", False)  # (left to lasio, such an object cannot be written at all)
    return {"src": {"desc": desc}, "opts": opts, "cycles": draw(st.integers(2, 4)),
            "read_kw": draw(st.sampled_from([{}, {"mnemonic_case": "preserve"}, {"mnemonic_case": "lower"}]))}


@st.composite
def spec_cases(draw):
    from checks import c05

    c = draw(c05.specs())
    opts = dict(draw(inputs.WRITER_OPTS))
    if draw(st.integers(0, 4)) == 0:
        # a file that declares VERS 1.0 (laid out like 1.2), written without version=: reader and writer must agree on
        # the layout that goes with the version the output declares
        hit = False
        for sec in c["spec"]["sections"]:
            if sec["kind"] == "V":
                for ln in sec["lines"]:
                    if ln.get("t") == "item" and ln.get("m", "").upper() == "VERS" and ln.get("v") == "1.2":
                        ln["v"] = "1.0"
                        hit = True
        if hit:
            opts.pop("version", None)
    return {"src": {"spec": c["spec"]}, "opts": opts, "cycles": draw(st.integers(2, 3)),
            "read_kw": {"mnemonic_case": c["mnemonic_case"]}}


def wide_cases(tier):
    """Many curves (every multiple of the default 7 fields per wrapped line and its neighbours) x wrap x version."""
    counts = [6, 7, 8, 13, 14, 15, 21, 28, 36] if tier == "quick" else list(range(1, 41))
    for c in counts:
        for r in (1, 3):
            for wrap in (True, False):
                for version in (1.2, 2):
                    curves = [["C%d" % j, "", "", "", [repr(100.0 + i * 0.5 + j * 1000) if (j == 0 or (i + j) % 4) else "nan" for i in range(r)]]
                              for j in range(c)]
                    desc = dict(version=[], well=[], params=[], curves=curves, other="", strt_unit="m", null=["f", "-9999.25"])
                    yield {"src": {"desc": desc}, "opts": {"wrap": wrap, "version": version}, "cycles": 3, "read_kw": {}}


def index_grid(tier):
    """First depths with more decimals than the index format keeps (and whose 5-decimal rounding changes after an
    intermediate rounding: ...x5|49...) x index formats finer and coarser than the header's own %.5f x steps x rows."""
    starts = ["100.1523549", "2500.3047549", "100.0000149", "1670.123456", "-12.3456789", "0.9999951", "986904.00000449"]
    optsets = [{}, {"fmt": "%.6f"}, {"column_fmt": {"0": "%.6f"}}, {"fmt": "%.8e"}, {"column_fmt": {"0": "%.7f"}}, {"fmt": "%.4f"},
               {"column_fmt": {"0": "%.2f"}, "wrap": True}, {"fmt": "%.10g", "version": 1.2}]
    for s0 in starts:
        for step in ("0.5", "0.1524", "-0.125"):
            for rows in ((1, 2, 3) if tier == "quick" else (1, 2, 3, 5, 8)):
                idx = [repr(float(s0) + i * float(step)) for i in range(rows)]
                curves = [["DEPT", "M", "", "depth", idx], ["GR", "API", "", "gamma", [repr(10.5 + i) for i in range(rows)]]]
                desc = dict(version=[], well=[], params=[], curves=curves, other="", strt_unit="M", null=["f", "-999.25"])
                for o in optsets:
                    yield {"src": {"desc": desc}, "opts": o, "cycles": 3, "read_kw": {}}


def parts(tier):
    return [
        Enum("example-corpus", corpus_cases),
        Enum("wide-files-wrapped-and-not", wide_cases),
        Enum("index-start x index-format grid", index_grid),
        Hyp("generated-lasfiles", desc_cases, quick=3000, thorough=50000),
        Hyp("generated-texts", spec_cases, quick=1500, thorough=20000),
    ]
