"""C18 - JSON, CSV, Excel, DataFrame and depth views carry the same values as the curves."""
import csv
import io
import json
import math
import os
import shutil
import tempfile
import warnings

import numpy as np
from hypothesis import strategies as st

from vlib import lasbuild as LB
from vlib.api import Enum, Hyp, Outcome, attempt, fenc, is_raised

# numpy/pandas/openpyxl warnings raised inside lasio calls (overflow in STEP, empty input) are not the subject here
warnings.filterwarnings("ignore")

ID = "C18"
LEVEL = "exploration"
RULE = ("five views, one sub-oracle each (case['view']): json / csv / excel / df take a LASFile built through the "
        "public API from a description (python and numpy int/float, NaN and text header values; repeated, "
        "case-variant and blank mnemonics in every section; float64 and str curves, NaN samples, 0 rows, 0 curves; "
        "custom sections) or an example file; csv additionally draws mnemonics/units in {True, False, list}, "
        "units_loc in {'line','[]','()',None}, delimiter and lineterminator; depth renders a small LAS text whose "
        "STRT/STOP/STEP units (each line optionally absent) and first-curve unit are spellings of the recognised "
        "sets of defaults.DEPTH_UNITS in any letter case (Cyrillic ones as listed) or spellings outside them, in "
        "agreeing, partly-unrecognised, conflicting and all-unrecognised combinations, and reads it with "
        "lasio.read under mnemonic_case upper / lower / preserve. Expected values come from the description / the generated text, never from a second lasio "
        "export. Non-trivial: (json/csv/excel/df) an integer or NaN header value, a text curve or NaN samples "
        "present; (depth) a recognised spelling that is not upper case or not 'M'/'FT'.")
ASSUMPTIONS = [
    "json: a NaN header value may be rendered as null (the statement fixes NaN->null only for samples); bare NaN or "
    "Infinity anywhere is a violation of 'a strict JSON parser accepts'; header values are looked up under "
    "metadata/<section>/<session mnemonic>, samples under data/<session mnemonic>",
    "csv: mnemonics=True may print original or session mnemonics; units_loc=None prints no units; with "
    "mnemonics=False and a bracket style the header is unspecified (nothing, the unit row or bracketed units accepted); "
    "mnemonic/unit lists have one entry per curve",
    "excel: ''/None are the same cell; numbers compare numerically within 1e-14 relative (a workbook number is written "
    "with 16 significant digits and has no integer type; magnitudes above 1e307 may overflow); a NaN or infinite "
    "header value may come back empty; the Mnemonic column / Curves header row may carry original or session mnemonics; "
    "text without control characters",
    "df: 'equal values' is judged on the values themselves: a float sample must come back as a float (a str '1.5' for "
    "1.5 is reported under its own bucket and then compared after float())",
    "depth: units are written in layouts the header grammar carries ('MNEM ..1IN' for units starting with a period); a "
    "file whose units lasio parsed differently from the text is counted as rejected (header grammar is C04's subject)",
    "files of the corpus that lasio cannot read are counted as rejected; Excel export of corpus files with more than "
    "4000 cells is skipped (class excel-skipped-large)",
]

STD_SECTIONS = [("~Version", "Version"), ("~Well", "Well"), ("~Parameter", "Parameter"), ("~Curves", "Curves")]
EXCEL_MAX_CELLS = 4000


# ----------------------------------------------------------------------------------------------
# common


def get_las(case, out):
    if case.get("src") == "corpus":
        las = attempt(LB.read_corpus, case["file"])
        if is_raised(las):
            out.rejected = True
            out.cls("rejected:" + las.bucket)
            return None, "corpus file %s" % case["file"]
        out.cls("corpus", *LB.las_classes(las))
        classes = LB.las_classes(las)
        label = "corpus file %s" % case["file"]
    else:
        las = LB.build(case["las"])
        classes = LB.desc_classes(case["las"])
        out.cls("generated", *classes)
        label = LB.summary(case["las"])
    out.nontrivial = any(c in classes for c in ("int-header-value", "npint-header-value", "nan-header-value",
                                                 "text-curve", "nan-samples"))
    if case.get("edit_in_place"):
        # the views are taken from the curves as they are NOW: look at las.data first, then change samples in place
        # (the array objects stay the same), then export
        try:
            _ = las.data
            for cv in las.curves[1:]:
                d = np.asarray(cv.data)
                if d.dtype.kind == "f" and len(d):
                    cv.data[0] = 4242.5
                    cv.data[-1] = -17.25
                    out.cls("edited-in-place-after-a-look-at-data")
                    break
        except Exception:  # noqa - ragged curves etc.: nothing edited
            pass
    return las, label


def is_num(x):
    return isinstance(x, (int, float, np.integer, np.floating)) and not isinstance(x, (bool, np.bool_))


def is_int(x):
    return isinstance(x, (int, np.integer)) and not isinstance(x, (bool, np.bool_))


def is_float(x):
    return isinstance(x, (float, np.floating))


def same_float(a, b):
    a, b = float(a), float(b)
    return (math.isnan(a) and math.isnan(b)) or a == b


def kinds_of(las):
    return [np.asarray(c.data).dtype.kind for c in las.curves]


def input_tag(las):
    if len(las.curves) == 0:
        return "no-curves"
    if any(k not in "fiu" for k in kinds_of(las)):
        return "text-curve"
    return "float-curves"


def unique(keys):
    return len(set(keys)) == len(keys)


# ----------------------------------------------------------------------------------------------
# 1. JSON


class Const(object):
    def __init__(self, name):
        self.name = name

    def __repr__(self):
        return "<bare %s>" % self.name


def walk_consts(node, path, found):
    if isinstance(node, Const):
        found.append((path, node.name))
    elif isinstance(node, dict):
        for k, v in node.items():
            walk_consts(v, path + (k,), found)
    elif isinstance(node, list):
        for i, v in enumerate(node):
            walk_consts(v, path + (i,), found)


def oracle_json(case):
    out = Outcome()
    las, label = get_las(case, out)
    if las is None:
        return out
    out.cls("view-json")
    out.sample = dict(view="json", input=label[:500])
    via = case.get("via", "json")
    text = attempt((lambda: las.json) if via == "json" else las.to_json)
    if is_raised(text):
        out.fail("raises|%s|json|%s" % (text.bucket, input_tag(las)), "LASFile.%s raised %s\n%s" % (via, text.text, label))
        return out
    if not isinstance(text, str):
        out.fail("json-not-text", "LASFile.%s returned %r" % (via, type(text)))
        return out
    doc = attempt(json.loads, text, parse_constant=Const)
    if is_raised(doc):
        out.fail("json-unparsable", "json.loads failed: %s\n%s\n%s" % (doc.text, text[:600], label))
        return out
    found = []
    walk_consts(doc, (), found)
    seen = set()
    for path, name in found:
        where = "sample" if path[:1] == ("data",) else "header-value"
        bucket = "json-not-strict|bare-%s|%s" % (name.lstrip("-"), where)
        if bucket not in seen:
            seen.add(bucket)
            out.fail(bucket, "the JSON text contains the bare constant %s at %s, which a strict JSON parser rejects\n%s\n%s"
                     % (name, "/".join(map(str, path)), text[:700], label))
    if not (isinstance(doc, dict) and isinstance(doc.get("metadata"), dict) and isinstance(doc.get("data"), dict)):
        out.fail("json-shape", "expected an object with 'metadata' and 'data' objects, got %s" % text[:300])
        return out
    # header values
    for name, sec in las.sections.items():
        got = doc["metadata"].get(name, Const("missing"))
        if isinstance(sec, str):
            if got != sec:
                out.fail("json-text-section-wrong", "metadata/%s: expected %r, got %r\n%s" % (name, sec, got, label))
            continue
        keys = [i.mnemonic for i in sec]
        if not unique(keys):
            out.cls("duplicate-session-mnemonics-skipped")
            continue
        if not isinstance(got, dict):
            out.fail("json-section-missing", "metadata/%s is %r, expected an object with keys %r\n%s" % (name, got, keys, label))
            continue
        for it in sec:
            if it.mnemonic not in got:
                out.fail("json-header-item-missing", "metadata/%s has no key %r (keys %r)\n%s" % (
                    name, it.mnemonic, list(got), label))
                continue
            g, v = got[it.mnemonic], it.value
            where = "metadata/%s/%s" % (name, it.mnemonic)
            if is_int(v):
                if not (is_num(g) and g == int(v)):
                    out.fail("json-header-int-not-number|%s" % type(v).__name__,
                             "%s: header value %r (%s) must appear as the JSON number %d, got %r\n%s" % (
                                 where, v, type(v).__name__, int(v), g, label))
            elif is_float(v):
                if math.isnan(v):
                    if not (g is None or (isinstance(g, Const) and g.name == "NaN")):
                        out.fail("json-header-nan-wrong", "%s: NaN header value rendered as %r\n%s" % (where, g, label))
                elif math.isinf(v):
                    pass
                elif not (is_num(g) and float(g) == float(v)):
                    out.fail("json-header-float-not-number|%s" % type(v).__name__,
                             "%s: header value %r must appear as an equal JSON number, got %r\n%s" % (where, v, g, label))
            elif isinstance(v, str):
                if g != v:
                    out.fail("json-header-text-wrong", "%s: text %r rendered as %r\n%s" % (where, v, g, label))
    # samples
    ckeys = [c.mnemonic for c in las.curves]
    if unique(ckeys):
        for c in las.curves:
            if c.mnemonic not in doc["data"]:
                out.fail("json-curve-missing", "data has no key %r (keys %r)\n%s" % (c.mnemonic, list(doc["data"]), label))
                continue
            got = doc["data"][c.mnemonic]
            data = np.asarray(c.data)
            if not isinstance(got, list) or len(got) != len(data):
                out.fail("json-sample-count", "data/%s: %d samples expected, got %r\n%s" % (
                    c.mnemonic, len(data), got if not isinstance(got, list) else len(got), label))
                continue
            for i, (g, v) in enumerate(zip(got, data)):
                where = "data/%s[%d]" % (c.mnemonic, i)
                if is_float(v) or is_int(v):
                    fv = float(v)
                    if math.isnan(fv):
                        if g is not None:
                            out.fail("json-nan-sample-not-null", "%s: NaN rendered as %r\n%s" % (where, g, label))
                            break
                    elif math.isinf(fv):
                        continue
                    elif not (is_num(g) and float(g) == fv):
                        out.fail("json-sample-wrong|number", "%s: sample %r rendered as %r\n%s" % (where, v, g, label))
                        break
                else:
                    if g != str(v):
                        out.fail("json-sample-wrong|text", "%s: text sample %r rendered as %r\n%s" % (where, v, g, label))
                        break
        extra = [k for k in doc["data"] if k not in ckeys]
        if extra:
            out.fail("json-extra-curves", "data has keys %r that are not curves %r\n%s" % (extra, ckeys, label))
    else:
        out.cls("duplicate-session-mnemonics-skipped")
    return out


# ----------------------------------------------------------------------------------------------
# 2. CSV


def expected_csv_header(mn_opt, un_opt, loc, originals, sessions, units):
    """List of acceptable header-row lists."""
    mn_alts = None
    if mn_opt is True:
        mn_alts = [originals] if originals == sessions else [originals, sessions]
    elif isinstance(mn_opt, list) and mn_opt:
        mn_alts = [list(mn_opt)]
    un = None
    if un_opt is True:
        un = units
    elif isinstance(un_opt, list) and un_opt:
        un = list(un_opt)
    if un is not None and not un:
        un = None  # no curves: an empty unit list cannot be told from "no units"
    alts = []
    if mn_alts:
        for mn in mn_alts:
            if not mn:
                alts.append([])
                continue
            if un is not None and loc in ("[]", "()"):
                alts.append([[m + " " + loc[0] + u + loc[1] for m, u in zip(mn, un)]])
            elif un is not None and loc == "line":
                alts.append([mn, un])
            else:
                alts.append([mn])
    else:
        if un is not None and loc == "line":
            alts.append([un])
        elif un is not None and loc in ("[]", "()"):
            alts.extend([[], [un], [[loc[0] + u + loc[1] for u in un]]])
        else:
            alts.append([])
    return alts


def oracle_csv(case):
    out = Outcome()
    las, label = get_las(case, out)
    if las is None:
        return out
    out.cls("view-csv")
    mn_opt, un_opt, loc = case.get("mnemonics", True), case.get("units", True), case.get("units_loc", "line")
    kw = dict(case.get("kw") or {})
    nc = len(las.curves)
    if isinstance(mn_opt, list):
        mn_opt = [str(x) for x in mn_opt][:nc] + ["m%d" % i for i in range(len(mn_opt), nc)]
    if isinstance(un_opt, list):
        un_opt = [str(x) for x in un_opt][:nc] + ["u%d" % i for i in range(len(un_opt), nc)]
    optkey = "mnemonics=%s,units=%s,units_loc=%r" % (
        "list" if isinstance(mn_opt, list) else mn_opt, "list" if isinstance(un_opt, list) else un_opt, loc)
    out.cls("csv:" + optkey)
    out.sample = dict(view="csv", input=label[:400], options=dict(mnemonics=mn_opt, units=un_opt, units_loc=loc, kw=kw))
    originals = [c.original_mnemonic for c in las.curves]
    sessions = [c.mnemonic for c in las.curves]
    units = [c.unit for c in las.curves]
    cols = [np.asarray(c.data) for c in las.curves]
    nrows = len(cols[0]) if cols else 0
    buf = io.StringIO(newline="")
    r = attempt(las.to_csv, buf, mnemonics=mn_opt, units=un_opt, units_loc=loc, **kw)
    what = "to_csv(mnemonics=%r, units=%r, units_loc=%r, **%r)" % (mn_opt, un_opt, loc, kw)
    if is_raised(r):
        out.fail("raises|%s|csv|%s" % (r.bucket, input_tag(las)), "%s raised %s\n%s" % (what, r.text, label))
        return out
    text = buf.getvalue()
    rd = {}
    if "delimiter" in kw:
        rd["delimiter"] = kw["delimiter"]
    rows = attempt(lambda: list(csv.reader(io.StringIO(text, newline=""), **rd)))
    if is_raised(rows):
        out.fail("csv-unparsable", "csv.reader failed on the output of %s: %s\n%r" % (what, rows.text, text[:500]))
        return out
    term = kw.get("lineterminator", "\n")
    if text and not text.endswith(term):
        out.fail("csv-lineterminator", "%s: output does not end with the line terminator %r: %r" % (what, term, text[-40:]))
    alts = expected_csv_header(mn_opt, un_opt, loc, originals, sessions, units)
    nhead = len(rows) - nrows
    ok = [a for a in alts if len(a) == nhead and a == rows[:nhead]]
    if not ok:
        if nhead < 0 or all(len(a) != nhead for a in alts):
            out.fail("csv-row-count|units_loc=%r" % (loc,), "%s: %d rows written for %d depth steps; expected header rows %r + one record "
                     "per depth step\n%r\n%s" % (what, len(rows), nrows, alts[0], text[:600], label))
            return out
        out.fail("csv-header-rows|units_loc=%r" % (loc,), "%s: header rows %r, expected %s\n%s" % (
            what, rows[:nhead], " or ".join(repr(a) for a in alts), label))
    for i in range(nrows):
        rec = rows[nhead + i]
        if len(rec) != nc:
            out.fail("csv-field-count", "%s: record %d has %d fields for %d curves: %r\n%s" % (what, i, len(rec), nc, rec, label))
            return out
        for j in range(nc):
            v = cols[j][i]
            if cols[j].dtype.kind in "fiu":
                f = attempt(float, rec[j])
                if is_raised(f) or not same_float(f, v):
                    out.fail("csv-field-wrong|number", "%s: record %d field %d is %r, the sample is %r\n%s" % (
                        what, i, j, rec[j], v, label))
                    return out
            elif rec[j] != str(v):
                out.fail("csv-field-wrong|text", "%s: record %d field %d is %r, the text sample is %r\n%s" % (
                    what, i, j, rec[j], str(v), label))
                return out
    return out


# ----------------------------------------------------------------------------------------------
# 3. Excel


def xl_num_eq(got, fe):
    """A spreadsheet number carries 15 significant decimal digits (openpyxl writes '%.15g'-like text), so a float
    comes back within 5e-15 relative; magnitudes next to the float range may overflow or underflow on that rounding."""
    if not is_num(got):
        return False
    g = float(got)
    if abs(fe) > 1e307 or abs(fe) < 1e-300:
        return math.isinf(g) or abs(g - fe) <= 1e-14 * abs(fe) or abs(g) < 1e-300
    return abs(g - fe) <= 1e-14 * abs(fe)


def cell_eq(expected, got):
    """expected: the LASFile's python value; got: what openpyxl read."""
    if expected is None or (isinstance(expected, str) and expected == ""):
        return got is None or got == ""
    if is_num(expected):
        fe = float(expected)
        if math.isnan(fe) or math.isinf(fe):
            return got is None or got == "" or (is_num(got) and same_float(got, fe))
        return xl_num_eq(got, fe)
    if isinstance(expected, str):
        return got == expected
    return True  # other value types: not specified


def oracle_excel(case):
    out = Outcome()
    las, label = get_las(case, out)
    if las is None:
        return out
    out.cls("view-excel")
    out.sample = dict(view="excel", input=label[:500])
    cols = [np.asarray(c.data) for c in las.curves]
    if cols and len(cols) * len(cols[0]) > EXCEL_MAX_CELLS:
        out.cls("excel-skipped-large")
        out.nontrivial = False
        return out
    import openpyxl

    tmp = tempfile.mkdtemp(prefix="c18xl")
    try:
        path = os.path.join(tmp, "out.xlsx")
        r = attempt(las.to_excel, path)
        if is_raised(r):
            out.fail("raises|%s|excel|%s" % (r.bucket, input_tag(las)), "to_excel raised %s\n%s" % (r.text, label))
            return out
        wb = attempt(openpyxl.load_workbook, path)
        if is_raised(wb):
            out.fail("excel-unreadable", "openpyxl.load_workbook failed: %s\n%s" % (wb.text, label))
            return out
        try:
            if "Header" not in wb.sheetnames or "Curves" not in wb.sheetnames:
                out.fail("excel-sheets", "sheets %r, expected 'Header' and 'Curves'" % (wb.sheetnames,))
                return out
            hs, cs = wb["Header"], wb["Curves"]
            hrows = [[c for c in row] for row in hs.iter_rows(values_only=True)]
            hrows = [list(r_) + [None] * (5 - len(r_)) for r_ in hrows]
            while hrows and all(x in (None, "") for x in hrows[-1]):
                hrows.pop()
            titles = ["Section", "Mnemonic", "Unit", "Value", "Description"]
            if not hrows or list(hrows[0][:5]) != titles:
                out.fail("excel-header-titles", "first row of sheet Header is %r, expected %r\n%s" % (
                    hrows[:1], titles, label))
                return out
            exp = []
            for title, key in STD_SECTIONS:
                for it in las.sections[key]:
                    exp.append((title, it))
            body = hrows[1:]
            if len(body) != len(exp):
                got_counts = {t: sum(1 for r_ in body if r_[0] == t) for t, _ in STD_SECTIONS}
                exp_counts = {t: len(las.sections[k]) for t, k in STD_SECTIONS}
                missing = [t for t in exp_counts if got_counts.get(t, 0) != exp_counts[t]]
                out.fail("excel-header-rows|%s" % ",".join(missing), "sheet Header lists %d items %r, the LASFile has %d %r\n%s" % (
                    len(body), got_counts, len(exp), exp_counts, label))
            else:
                for k, ((title, it), row) in enumerate(zip(exp, body)):
                    bad = None
                    if row[0] != title:
                        bad = ("section", title, row[0])
                    elif not (cell_eq(it.mnemonic, row[1]) or cell_eq(it.original_mnemonic, row[1])):
                        bad = ("mnemonic", (it.original_mnemonic, it.mnemonic), row[1])
                    elif not cell_eq(it.unit, row[2]):
                        bad = ("unit", it.unit, row[2])
                    elif not cell_eq(it.value, row[3]):
                        bad = ("value", it.value, row[3])
                    elif not cell_eq(it.descr, row[4]):
                        bad = ("descr", it.descr, row[4])
                    if bad:
                        vt = ""
                        if bad[0] == "value":
                            vt = "|" + ("number" if is_num(it.value) else "text")
                        out.fail("excel-header-cell|%s%s" % (bad[0], vt), "sheet Header row %d (%s %r): %s is %r in the workbook, "
                                 "%r in the LASFile\n%s" % (k + 2, title, it.mnemonic, bad[0], bad[2], bad[1], label))
                        break
            # Curves sheet
            nc = len(cols)
            nrows = len(cols[0]) if cols else 0
            width = max(cs.max_column, nc)
            height = max(cs.max_row, nrows + 1)
            grid = [[cs.cell(row=i + 1, column=j + 1).value for j in range(width)] for i in range(height)]
            firstrow = grid[0][:nc] if grid else []
            sess = [c.mnemonic for c in las.curves]
            orig = [c.original_mnemonic for c in las.curves]
            if nc and not (all(cell_eq(a, b) for a, b in zip(sess, firstrow))
                           or all(cell_eq(a, b) for a, b in zip(orig, firstrow))):
                out.fail("excel-curves-mnemonic-row", "first row of sheet Curves is %r, the curve mnemonics are %r\n%s" % (
                    firstrow, sess, label))
            stray = [(i, j) for i in range(height) for j in range(width)
                     if (j >= nc or i > nrows) and grid[i][j] not in (None, "")]
            if stray:
                out.fail("excel-curves-extra-cells", "sheet Curves has content outside the %d x %d sample block at %r\n%s" % (
                    nrows, nc, stray[:5], label))
            done = False
            for j in range(nc):
                for i in range(nrows):
                    v, g = cols[j][i], grid[i + 1][j]
                    if cols[j].dtype.kind in "fiu":
                        fv = float(v)
                        if math.isnan(fv):
                            good = g is None or g == ""
                            bucket = "excel-nan-sample-not-empty"
                        elif math.isinf(fv):
                            good, bucket = True, ""
                        else:
                            good = xl_num_eq(g, fv)
                            bucket = "excel-sample-wrong|number"
                    else:
                        good = cell_eq(str(v), g)
                        bucket = "excel-sample-wrong|text"
                    if not good:
                        out.fail(bucket, "sheet Curves row %d column %d is %r, the sample of curve %r is %r\n%s" % (
                            i + 2, j + 1, g, sess[j], v, label))
                        done = True
                        break
                if done:
                    break
        finally:
            wb.close()
    finally:
        shutil.rmtree(tmp, ignore_errors=True)
    return out


# ----------------------------------------------------------------------------------------------
# 4. DataFrame

D26 = "df-text-curve-numeric-columns-not-float"


def compare_column(got, col, where, out, label, tag):
    """got: sequence of values from pandas / lasio; col: expected numpy column. Returns False after a failure."""
    if len(got) != len(col):
        out.fail("df-length|" + tag, "%s: %d values, expected %d\n%s" % (where, len(got), len(col), label))
        return False
    numeric = col.dtype.kind in "fiu"
    stringly = False
    for i, (g, v) in enumerate(zip(got, col)):
        if numeric:
            if is_num(g):
                if not same_float(g, v):
                    out.fail("df-value-wrong|" + tag, "%s[%d] is %r, the sample is %r\n%s" % (where, i, g, v, label))
                    return False
            else:
                f = attempt(float, g)
                if is_raised(f) or not same_float(f, v):
                    out.fail("df-value-wrong|" + tag, "%s[%d] is %r (%s), the sample is %r\n%s" % (
                        where, i, g, type(g).__name__, v, label))
                    return False
                stringly = True
        else:
            ok = isinstance(g, str) and g == str(v)
            if not ok and is_num(g):
                # df() documents/implements "columns are converted to float when possible": a text curve whose samples
                # all look like numbers comes out numeric; the value is still the same number
                f = attempt(float, str(v))
                ok = (not is_raised(f)) and same_float(g, f)
            if not ok:
                out.fail("df-value-wrong|text|" + tag, "%s[%d] is %r, the text sample is %r\n%s" % (where, i, g, str(v), label))
                return False
    if stringly:
        return "stringly"
    return True


def oracle_df(case):
    out = Outcome()
    las, label = get_las(case, out)
    if las is None:
        return out
    out.cls("view-df")
    out.sample = dict(view="df", input=label[:500])
    cols = [np.asarray(c.data).copy() for c in las.curves]
    sess = [c.mnemonic for c in las.curves]
    has_text = any(c.dtype.kind not in "fiu" for c in cols)
    if not unique(sess):
        out.cls("duplicate-session-mnemonics-skipped")
        return out
    df = attempt(las.df)
    if is_raised(df):
        out.fail("raises|%s|df|%s" % (df.bucket, input_tag(las)), "df() raised %s\n%s" % (df.text, label))
        return out
    if len(cols) == 0:
        # nothing to compare in the frame; the way back must still restore the same (empty) list of curves
        out.cls("df-of-no-curves")
        las2 = LB.build(case["las"]) if case.get("src") != "corpus" else None
        if las2 is not None:
            r = attempt(las2.set_data_from_df, df)
            if is_raised(r):
                out.fail("raises|%s|set_data_from_df|no-curves" % r.bucket, "set_data_from_df(df()) raised %s\n%s" % (r.text, label))
            elif attempt(las2.keys) != []:
                out.fail("df-roundtrip-names", "after set_data_from_df(df()) the curves are %r, before []\n%s" % (attempt(las2.keys), label))
        return out
    stringly = []
    if df.index.name != sess[0]:
        out.fail("df-index-name", "df().index.name is %r, the first curve is %r\n%s" % (df.index.name, sess[0], label))
    if [str(c) for c in df.columns] != sess[1:] or not all(isinstance(c, str) for c in df.columns):
        out.fail("df-columns", "df().columns are %r, the other curves are %r\n%s" % (list(df.columns), sess[1:], label))
        return out
    r = compare_column(list(df.index), cols[0], "df().index", out, label, "df")
    if r == "stringly":
        stringly.append("index")
    ok = bool(r)
    if ok:
        for j in range(1, len(cols)):
            r = compare_column(list(df.iloc[:, j - 1]), cols[j], "df()[%r]" % sess[j], out, label, "df")
            if r == "stringly":
                stringly.append(sess[j])
            if not r:
                ok = False
                break
    if stringly:
        bucket = D26 if has_text else "df-numeric-values-not-float"
        out.fail(bucket, "df(): the numeric curve(s) %r come back as text (dtypes %r) although their samples are floats\n%s" % (
            stringly, [str(t) for t in [df.index.dtype] + list(df.dtypes)], label))
    if not ok:
        return out
    # set_data_from_df(df()) on a second, identical LASFile
    if case.get("src") == "corpus":
        las2 = attempt(LB.read_corpus, case["file"])
        if is_raised(las2):
            return out
    else:
        las2 = LB.build(case["las"])
    r = attempt(las2.set_data_from_df, df)
    if is_raised(r):
        out.fail("raises|%s|set_data_from_df|%s" % (r.bucket, input_tag(las)), "set_data_from_df(df()) raised %s\n%s" % (r.text, label))
        return out
    keys2 = attempt(las2.keys)
    if keys2 != sess:
        out.fail("df-roundtrip-names", "after set_data_from_df(df()) the curves are %r, before %r\n%s" % (keys2, sess, label))
        return out
    stringly = []
    for j, c in enumerate(las2.curves):
        r = compare_column(list(np.asarray(c.data)), cols[j], "curve %r after set_data_from_df(df())" % sess[j], out, label,
                           "roundtrip")
        if r == "stringly":
            stringly.append(sess[j])
        if not r:
            break
    if stringly:
        bucket = D26 if has_text else "df-numeric-values-not-float"
        out.fail(bucket, "set_data_from_df(df()): the numeric curve(s) %r come back as text\n%s" % (stringly, label))
    return out


# ----------------------------------------------------------------------------------------------
# 5. depth views

FAMILIES = {
    "FT": ("FT", "F", "FEET", "FOOT"),
    "M": ("M", "METER", "METERS", "METRE", "METRES"),
    ".1IN": (".1IN", "0.1IN", ".1INCH", "0.1INCH"),
}
CYRILLIC_M = (u"метер", u"м")  # the two listed spellings, lower case as listed
OUTSIDE = ["KM", "S", "", "IN", "CM", "MM", "MS", "FTUS", "1IN", "INCH", "MT", "FEETS", "METRE2", "F/S", "M/S", "FT3",
           "DM", "YD", "0.1M", "FTM", "sec", "0.01IN", "1/FT", "degF"]


def family(unit):
    """Reference recogniser: the documented sets, ASCII spellings in any letter case, Cyrillic as listed."""
    for fam, names in FAMILIES.items():
        if unit.upper() in names:
            return fam
    if unit in CYRILLIC_M:
        return "M"
    return None


def depth_text(case):
    def item(m, u, v, d):
        sep = " " if u.startswith(".") else case.get("pad", "")
        return "%s%s.%s %s : %s" % (m, sep, u, v, d)

    idx = case["index"]
    us, uo, ue, uc = case["units"]
    lines = ["~Version", "VERS. 2.0 : CWLS", "WRAP. NO : one line per depth step", "~Well"]
    step = "%.4f" % (float(idx[1]) - float(idx[0])) if len(idx) > 1 else "0.0"
    for m, u, v in (("STRT", us, idx[0]), ("STOP", uo, idx[-1]), ("STEP", ue, step)):
        if u is not None:
            lines.append(item(m, u, v, m.lower()))
    lines += ["NULL. -999.25 : null", "WELL. W1 : well", "~Curves", item("DEPT", uc, "", "index"), "GR.GAPI : gamma",
              "~ASCII"]
    for k, t in enumerate(idx):
        lines.append("%s %d.5" % (t, k))
    return "\n".join(lines) + "\n"


def close(a, b, rtol=1e-12):
    a, b = np.asarray(a, dtype=float), np.asarray(b, dtype=float)
    return a.shape == b.shape and bool(np.all(np.abs(a - b) <= rtol * np.abs(b)))


def judge_depth(las, units, idx, out, label, note):
    """units: the four unit strings (None = item absent) as lasio holds them."""
    import lasio

    fams = sorted({family(u) for u in units if u is not None and family(u) is not None})
    situation = "recognised" if len(fams) == 1 else ("conflict" if len(fams) > 1 else "unrecognised")
    out.cls("depth-" + situation, *["depth-family-" + f for f in fams])
    dm, df_ = attempt(lambda: las.depth_m), attempt(lambda: las.depth_ft)
    iu = las.index_unit
    if situation != "recognised":
        if iu is not None:
            out.fail("depth-index-unit-set|" + situation, "units %r (%s): index_unit is %r, expected None; depth_m -> %r, "
                     "depth_ft -> %r\n%s" % (units, situation, iu, dm, df_, label))
            return
        for name, r in (("depth_m", dm), ("depth_ft", df_)):
            if not (is_raised(r) and isinstance(r.exc, lasio.exceptions.LASUnknownUnitError)):
                out.fail("depth-not-undefined|%s|%s" % (name, situation), "units %r (%s): %s gave %r, expected "
                         "LASUnknownUnitError\n%s" % (units, situation, name, r, label))
        return
    fam = fams[0]
    spell = [u for u in units if u is not None and family(u) == fam]
    if any(u != u.upper() or u.upper() not in ("M", "FT") for u in spell):
        out.nontrivial = True
    tag = fam
    if iu is None or family(iu) != fam:
        out.fail("depth-unit-not-recognised|" + tag, "units %r: the recognised ones all belong to %s, yet index_unit is %r; "
                 "depth_m -> %r, depth_ft -> %r\n%s" % (units, fam, iu, dm, df_, label))
        return
    for name, r in (("depth_m", dm), ("depth_ft", df_)):
        if is_raised(r):
            out.fail("raises|%s|%s|%s" % (r.bucket, name, tag), "units %r (%s): %s raised %s\n%s" % (units, fam, name, r.text, label))
    if is_raised(dm) or is_raised(df_):
        return
    idx = np.asarray(idx, dtype=float)
    if not close(dm, np.asarray(df_, dtype=float) * 0.3048):
        out.fail("depth-m-ft-inconsistent|" + fam, "units %r: depth_m %r is not depth_ft %r x 0.3048\n%s" % (
            units, list(dm[:4]), list(df_[:4]), label))
    if fam == "M" and not close(dm, idx):
        out.fail("depth-m-wrong|M", "index in metres %r, depth_m %r\n%s" % (list(idx[:4]), list(dm[:4]), label))
    if fam == "FT" and not close(df_, idx):
        out.fail("depth-ft-wrong|FT", "index in feet %r, depth_ft %r\n%s" % (list(idx[:4]), list(df_[:4]), label))
    if fam == ".1IN" and not close(df_, idx / 120.0):
        out.fail("depth-ft-wrong|.1IN", "index in tenths of an inch %r, depth_ft %r, expected index/120\n%s" % (
            list(idx[:4]), list(df_[:4]), label))


def oracle_depth(case):
    import lasio

    out = Outcome()
    out.cls("view-depth")
    if case.get("src") == "corpus":
        las = attempt(LB.read_corpus, case["file"])
        label = "corpus file %s" % case["file"]
        if is_raised(las):
            out.rejected = True
            out.cls("rejected:" + las.bucket)
            return out
        out.cls("corpus")
        if len(las.curves) == 0 or np.asarray(las.curves[0].data).dtype.kind not in "fiu":
            out.cls("depth-no-numeric-index")
            return out
        units = [las.well[m].unit if m in las.well.keys() else None for m in ("STRT", "STOP", "STEP")]
        units.append(las.curves[0].unit)
        if not all(u is None or isinstance(u, str) for u in units):
            return out
        out.sample = dict(view="depth", input=label, units=units)
        judge_depth(las, units, np.asarray(las.curves[0].data, dtype=float), out, label, "corpus")
        return out
    text = depth_text(case)
    label = "units (STRT, STOP, STEP, first curve) = %r\n%s" % (case["units"], text)
    out.cls("generated")
    out.sample = dict(view="depth", units=case["units"], text=text[:500])
    mc = case.get("mnemonic_case", "upper")
    out.cls("depth-mnemonic_case-" + mc)
    rkw = {}
    if case.get("ignore_data"):
        # the header alone says which unit the index is in: reading without the data changes no unit
        rkw["ignore_data"] = True
        out.cls("depth-ignore_data")
    if case.get("reuse"):
        # the LASFile has read a file in feet before: the index unit is that of the file read LAST
        obj = attempt(lasio.read, "~V\nVERS. 2.0 : v\nWRAP. NO : w\n~W\nSTRT.FT 1 : s\nSTOP.FT 2 : s\nSTEP.FT 1 : s\nNULL. -999.25 : n\n~C\nDEPT.FT : d\n~A\n1\n2\n")
        las = obj if is_raised(obj) else attempt(obj.read, io.StringIO(text), mnemonic_case=mc, **rkw)
        if not is_raised(las):
            las = obj
        out.cls("depth-second-read-into-the-same-object")
    else:
        las = attempt(lasio.read, io.StringIO(text), mnemonic_case=mc, **rkw)
    if is_raised(las):
        out.rejected = True
        out.cls("rejected:" + las.bucket)
        return out
    by_name = {it.original_mnemonic.upper(): it.unit for it in list(las.well)[::-1]}
    got = [by_name.get(m) for m in ("STRT", "STOP", "STEP")]
    got.append(las.curves[0].unit if len(las.curves) else None)
    if got != list(case["units"]):
        out.rejected = True
        out.cls("rejected:units-parsed-differently")
        return out
    idx = [float(t) for t in case["index"]] if not rkw else []
    if len(las.curves) == 0 or not close(las.index, idx):
        out.rejected = True
        out.cls("rejected:index-parsed-differently")
        return out
    kinds = set()
    for u in case["units"]:
        if u:
            if u in CYRILLIC_M:
                kinds.add("depth-spelling-cyrillic")
            elif family(u) and u != u.upper():
                kinds.add("depth-spelling-mixed-or-lower-case")
            elif family(u):
                kinds.add("depth-spelling-upper")
            else:
                kinds.add("depth-spelling-outside")
        elif u == "":
            kinds.add("depth-unit-empty")
        else:
            kinds.add("depth-item-absent")
    out.cls(*sorted(kinds))
    judge_depth(las, list(case["units"]), idx, out, label, "generated")
    return out


# ----------------------------------------------------------------------------------------------
# dispatch

ORACLES = {"json": oracle_json, "csv": oracle_csv, "excel": oracle_excel, "df": oracle_df, "depth": oracle_depth}


def oracle(case):
    return ORACLES[case["view"]](case)


# ----------------------------------------------------------------------------------------------
# strategies and parts


def desc_strategy(view):
    # inf only where the statement's "always strict JSON" bites; the other views say nothing about infinities
    # post-build deletions (stale suffixes such as GR:2, GR:3) only where the view does not rename curves: after
    # set_data_from_df() lasio re-assigns duplicate suffixes, so "the same curve names" is only meaningful without them
    return LB.las_desc(inf=(view == "json"), p_text=4, p_empty=1, drops=(view in ("json", "csv", "df")),
                       extra_kinds=(("o", "i") if view == "json" else ()))


@st.composite
def json_cases(draw):
    return dict(view="json", src="gen", las=draw(desc_strategy("json")), via=draw(st.sampled_from(["json", "to_json"])))


NAME_LIST = st.lists(st.one_of(st.sampled_from(["A", "B", "depth", "x y", "", "q,r", "n\"m"]),
                               st.text("ABCabc123 _,;", max_size=6)), min_size=8, max_size=8)


@st.composite
def csv_cases(draw):
    desc = draw(desc_strategy("csv"))
    case = dict(view="csv", src="gen", las=desc, edit_in_place=draw(st.integers(0, 3)) == 0)
    case["mnemonics"] = draw(st.one_of(st.just(True), st.just(True), st.just(False), NAME_LIST))
    case["units"] = draw(st.one_of(st.just(True), st.just(True), st.just(False), NAME_LIST))
    case["units_loc"] = draw(st.sampled_from(["line", "line", "[]", "()", None]))
    kw = {}
    if draw(st.booleans()):
        kw["delimiter"] = draw(st.sampled_from([",", ";", "\t", "|", " "]))
    if draw(st.booleans()):
        kw["lineterminator"] = draw(st.sampled_from(["\n", "\r\n"]))
    if kw:
        case["kw"] = kw
    return case


@st.composite
def excel_cases(draw):
    return dict(view="excel", src="gen", las=draw(LB.las_desc(inf=False, p_text=3, p_empty=1, max_rows=5)))


@st.composite
def df_cases(draw):
    desc = draw(desc_strategy("df"))
    edit = draw(st.integers(0, 3)) == 0
    rows = len(desc["curves"][0][5]) if desc.get("curves") else 0
    # a rename after construction can leave two curves whose names differ in case only inside a case-insensitive section,
    # unnumbered; set_data then numbers them: such a start state is not one the statement's round trip speaks about
    desc.pop("rename", None)
    if rows == 0:
        # with no samples set_data() does not assign the frame's names at all and simply renumbers the duplicates: the
        # stale suffixes a deletion leaves behind (GR:2, GR:3) are then not "restored" - the statement's round trip is
        # judged on frames that carry data
        for k in ("drop", "rename", "assign"):
            desc.pop(k, None)
    return dict(view="df", src="gen", las=desc, edit_in_place=edit)


def spell(draw, fam):
    if fam == "M" and LB.roll(draw, 5) == 0:
        return draw(st.sampled_from(CYRILLIC_M))
    s = draw(st.sampled_from(FAMILIES[fam]))
    k = LB.roll(draw, 5)
    if k == 0:
        return s
    if k == 1:
        return s.lower()
    if k == 2:
        return s.title()
    if k == 3:
        return s.swapcase().lower() if len(s) < 2 else s[0].lower() + s[1:]
    return "".join(c.lower() if draw(st.booleans()) else c for c in s)


@st.composite
def depth_cases(draw):
    mode = LB.roll(draw, 20)
    fams = list(FAMILIES)
    outside = st.sampled_from(OUTSIDE)
    if mode <= 7:  # all agree
        f = draw(st.sampled_from(fams))
        units = [spell(draw, f) for _ in range(4)]
    elif mode <= 12:  # some unrecognised / empty, the rest agree
        f = draw(st.sampled_from(fams))
        units = [spell(draw, f) if draw(st.booleans()) else draw(outside) for _ in range(4)]
        if all(family(u) is None for u in units):
            units[LB.roll(draw, 4)] = spell(draw, f)
    elif mode <= 16:  # conflict
        f, g = draw(st.permutations(fams))[:2]
        units = [spell(draw, draw(st.sampled_from([f, g]))) if LB.roll(draw, 4) else draw(outside)
                 for _ in range(4)]
        i, j = draw(st.permutations([0, 1, 2, 3]))[:2]
        units[i], units[j] = spell(draw, f), spell(draw, g)
    else:  # nothing recognised
        units = [draw(outside) for _ in range(4)]
    # sometimes an item line is absent altogether
    for k in range(3):
        if LB.roll(draw, 12) == 0:
            units[k] = None
    n = draw(st.integers(1, 5))
    start = draw(st.sampled_from([0.0, 100.0, 1670.0, 986904.0, -12.5, 0.3048, 2500.125]))
    step = draw(st.sampled_from([0.5, 0.1524, -0.125, 1.0, 12.0, -12.0, 0.1]))
    idx = ["%.4f" % (start + i * step) for i in range(n)]
    case = dict(view="depth", src="gen", units=units, index=idx, mnemonic_case=draw(st.sampled_from(["upper", "upper", "lower", "preserve"])))
    if LB.roll(draw, 4) == 0:
        case["pad"] = draw(st.sampled_from([" ", "  "]))
    if LB.roll(draw, 5) == 0:
        case["reuse"] = True
    if draw(st.integers(0, 5)) == 0:
        case["ignore_data"] = True
    return case


def depth_grid(tier):
    """Every listed spelling (as listed, lower case, title case) alone on all four items, every outside spelling, and
    every ordered pair of families as STRT-vs-curve conflict."""
    idx = ["100.0000", "100.5000", "101.0000"]
    spellings = []
    for fam, names in FAMILIES.items():
        for s in names:
            spellings.extend([s, s.lower(), s.title()])
    spellings.extend(CYRILLIC_M)
    seen = set()
    for s in spellings + OUTSIDE:
        if s in seen:
            continue
        seen.add(s)
        yield dict(view="depth", src="gen", units=[s, s, s, s], index=idx)
        yield dict(view="depth", src="gen", units=["", "", "", s], index=idx)
        yield dict(view="depth", src="gen", units=[s, None, None, "unknown"], index=idx)
        yield dict(view="depth", src="gen", units=[s, s, s, ""], index=idx, mnemonic_case="lower")
        yield dict(view="depth", src="gen", units=[s, s, s, s], index=idx, reuse=True)
        yield dict(view="depth", src="gen", units=["", "", "", s], index=idx, ignore_data=True)
        yield dict(view="depth", src="gen", units=[s, None, None, "unknown"], index=idx, ignore_data=True)
    for f in FAMILIES:
        for g in FAMILIES:
            if f != g:
                for a in FAMILIES[f][:2]:
                    for b in FAMILIES[g][:2]:
                        yield dict(view="depth", src="gen", units=[a, a, a, b.lower()], index=idx)
                        yield dict(view="depth", src="gen", units=[a.lower(), b, "", ""], index=idx)


CSV_CORPUS_OPTIONS = [
    {},
    {"units_loc": "[]"},
    {"mnemonics": False, "units": False},
    {"units_loc": "()", "kw": {"delimiter": ";", "lineterminator": "\r\n"}},
]

EMPTY = dict(curves=[])
FIXED = [
    EMPTY,
    dict(set=[["Well", "STRT", ["f", "1.0"], None], ["Well", "STOP", ["f", "2.0"], None], ["Well", "STEP", ["f", "1.0"], None]],
         curves=[["DEPT", "m", ["s", ""], "", "f", ["1.0", "2.0"]], ["GR", "gAPI", ["s", ""], "", "f", ["5.5", "nan"]]]),
    dict(set=[["Well", "STRT", ["f", "1.0"], None], ["Well", "STOP", ["f", "2.0"], None], ["Well", "STEP", ["f", "1.0"], None]],
         params=[["RUN", "", ["I", 3], "run"], ["N", "", ["i", 3], "n"]],
         curves=[["DEPT", "m", ["s", ""], "", "f", ["1.0", "2.0"]]]),
    dict(set=[["Well", "STRT", ["f", "1.0"], None], ["Well", "STOP", ["f", "2.0"], None], ["Well", "STEP", ["f", "1.0"], None]],
         curves=[["DEPT", "m", ["s", ""], "", "f", ["1.0", "2.0"]], ["LITH", "", ["s", ""], "", "s", ["SAND", ""]],
                 ["GR", "", ["s", ""], "", "f", ["5.5", "nan"]]]),
    dict(set=[["Well", "STRT", ["f", "1.0"], None], ["Well", "STOP", ["f", "2.0"], None], ["Well", "STEP", ["f", "1.0"], None]],
         curves=[["DEPT", "m", ["s", ""], "", "f", []], ["GR", "", ["s", ""], "", "f", []]]),
]


def fixed_cases(tier):
    for d in FIXED:
        for v in ("json", "excel", "df"):
            yield dict(view=v, src="gen", las=d)
        for o in CSV_CORPUS_OPTIONS + [{"mnemonics": False, "units_loc": "line"}, {"units_loc": None}]:
            c = dict(view="csv", src="gen", las=d)
            c.update(o)
            yield c


def corpus_cases(tier):
    for rel in LB.corpus_files():
        yield dict(view="json", src="corpus", file=rel)
        yield dict(view="df", src="corpus", file=rel)
        yield dict(view="depth", src="corpus", file=rel)
        yield dict(view="excel", src="corpus", file=rel)
        big = os.path.getsize(os.path.join(LB.CORPUS_ROOT, rel)) > 1000000
        for o in CSV_CORPUS_OPTIONS:
            if big and tier == "quick" and o:
                continue  # to_csv rebuilds the whole data array for every row: ~15 s per call on the 2 MB example
            c = dict(view="csv", src="corpus", file=rel)
            c.update(o)
            yield c


def evidence_extra(stats):
    views = {v: stats.classes.get("view-" + v, 0) for v in ORACLES}
    keys = ("int-header-value", "npint-header-value", "nan-header-value", "text-curve", "nan-samples", "no-curves",
            "zero-rows", "depth-recognised", "depth-conflict", "depth-unrecognised")
    return dict(evaluations_per_view=views, key_class_counts={k: stats.classes.get(k, 0) for k in keys})


def parts(tier):
    return [
        Enum("fixed-shapes x views", fixed_cases),
        Enum("corpus x views", corpus_cases),
        Enum("depth-spelling-grid", depth_grid, oracle=oracle_depth),
        Hyp("json", json_cases, quick=1500, thorough=25000, oracle=oracle_json),
        Hyp("csv", csv_cases, quick=1500, thorough=25000, oracle=oracle_csv),
        Hyp("excel", excel_cases, quick=140, thorough=2000, oracle=oracle_excel),
        Hyp("df", df_cases, quick=1000, thorough=15000, oracle=oracle_df),
        Hyp("depth", depth_cases, quick=1500, thorough=40000, oracle=oracle_depth),
    ]
