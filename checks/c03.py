"""C03 - header metadata survives write -> read in every section and both versions."""
import math

from hypothesis import strategies as st

from vlib import build, canon, models, strategies as S
from vlib.api import Hyp, Outcome, attempt, is_raised
from vlib.filecheck import read_text

ID = "C03"
LEVEL = "exploration"
RULE = ("case = LASFile description: ~V (defaults + 0..2 items), ~W (STRT/STOP/STEP/NULL + 0..6 items), ~C (1..5 "
        "curves x 1..3 rows), ~P (0..8 items), ~O lines; conformant fields incl. punctuation, quotes, brackets, "
        "non-ASCII letters, empty fields, duplicates, blank mnemonics (on lines with no further period), long "
        "mnemonics, one designated item made the widest of its section, empty value next to a unit, values int / "
        "float / numpy scalars / 64-bit edges / text that is a numeric literal / text; written as version 1.2 or 2.0 "
        "and re-read with mnemonic_case preserve/upper/lower. Oracle: expected items computed from the description "
        "(not from lasio): case-mapped original mnemonic, unit, value (numbers numerically, text verbatim), "
        "description, ~O lines; permitted differences only: STRT/STOP/STEP values, STRT/STOP/STEP/first-curve units, "
        "empty value with a unit -> 0, VERS (and WRAP when wrap= is given). Non-trivial: some item is the strict "
        "widest of its section, or has empty value + unit, or a blank or duplicate mnemonic.")
ASSUMPTIONS = [
    "fields are LAS-conformant as listed in the property statement; values and descriptions carry no leading or "
    "trailing blanks (the reader strips them); NaN/inf header values are not generated",
    "case variants of STRT/STOP/STEP (e.g. 'Strt') may appear as additional ~W items; variants of NULL are not "
    "generated as duplicates of the real NULL item",
]

SEC = {"V": "Version", "W": "Well", "C": "Curves", "P": "Parameter"}


def std_value(v, unit, sec):
    """writer.standardize_value as documented: ~W/~P only."""
    if sec in ("W", "P"):
        if unit and (v is None or v == "" ) :
            return 0
        if v is None:
            return ""
    return v


def expected_items(rows, sec, mc):
    names = [canon_case(m, mc) for m, u, v, d in rows]
    sess = models.session_names(names, ci=(mc != "preserve"))
    out = []
    for (m, u, v, d), name, s in zip(rows, names, sess):
        pv = std_value(build.val(v), u, sec)
        text = str(pv)
        if sec == "C":
            val = ("s", text)
        elif sec == "P":
            val = canon.cval_from_text(text, True)
        else:
            val = canon.cval_from_text(text, name.upper() not in ("API", "UWI"))
        out.append(dict(orig=name, sess=s, unit=u, value=val, descr=d))
    return out


def canon_case(m, mc):
    return m.upper() if mc == "upper" else m.lower() if mc == "lower" else m


def widest_flags(rows, sec, version):
    """Is some item the strict widest of its section (by the writer's own layout rule)?"""
    if len(rows) < 2:
        return False
    ws = []
    for m, u, v, d in rows:
        left = d if (version == 1.2 and sec == "W" and m not in ("STRT", "STOP", "STEP", "NULL", "strt", "stop", "step", "null")) else str(build.val(v))
        ws.append(len(u) + 1 + len(left))
    top = sorted(ws)[-2:]
    return top[0] < top[1]


def oracle(case):
    out = Outcome()
    desc = case["desc"]
    version = case["version"]
    mc = case["mnemonic_case"]
    wrap = case.get("wrap")
    las = attempt(build.build_las, desc)
    if is_raised(las):
        out.fail("build-raises|" + las.bucket, "%s\n%r" % (las, desc))
        return out
    kw = dict(version=version)
    if wrap is not None:
        kw["wrap"] = wrap
    if case.get("dlm_in_object"):
        # the object of a tab- or comma-delimited file: the output is written with blanks and says so (DLM SPACE)
        las.version["DLM"].value = case["dlm_in_object"]
        out.cls("dlm-in-object-" + case["dlm_in_object"])
    text = attempt(build.write_text, las, **kw)
    vrows = [["VERS", "", ["f", "2.0"], ""], ["WRAP", "", ["s", "NO"], "One line per depth step"],
             ["DLM", "", ["s", "SPACE"], "Column Data Section Delimiter"]]
    vrows = (desc.get("version", []) + vrows) if desc.get("version_front") else (vrows + desc.get("version", []))
    wrows = [["STRT", desc.get("strt_unit", "m"), ["f", "0"], "START DEPTH"], ["STOP", desc.get("strt_unit", "m"), ["f", "0"], "STOP DEPTH"],
             ["STEP", desc.get("strt_unit", "m"), ["f", "0"], "STEP"], ["NULL", "", desc.get("null", ["f", "-9999.25"]), "NULL VALUE"]] + desc.get("well", [])
    crows = [[c[0], c[1], ["s", c[2]], c[3]] for c in desc["curves"]]
    prows = desc.get("params", [])
    allrows = {"V": vrows, "W": wrows, "C": crows, "P": prows}
    feats = []
    for sec, rows in allrows.items():
        if widest_flags(rows, sec, version):
            feats.append("strict-widest-" + sec)
        for m, u, v, d in rows:
            pv = build.val(v)
            if u and (pv is None or pv == "") and sec in ("W", "P"):
                feats.append("empty-value-with-unit")
            if m.strip() == "":
                feats.append("blank-mnemonic")
        ms = [r[0] for r in rows]
        if len(set(ms)) < len(ms):
            feats.append("duplicate-mnemonic")
    out.cls(*sorted(set(feats)))
    out.cls("v%s" % version, "mc-" + mc)
    out.nontrivial = bool(feats)
    out.sample = dict(version=version, mnemonic_case=mc, well=desc.get("well", [])[:3], params=desc.get("params", [])[:3])
    if is_raised(text):
        out.fail("write-raises|" + text.bucket, "%s\n%r" % (text, desc))
        return out
    pre = case.get("pre")
    if pre:
        # the LASFile that is written was itself READ (with its own mnemonic_case) from a file of the other version
        out.cls("pre-read-" + pre["mnemonic_case"])
        mid = read_text(text, mnemonic_case=pre["mnemonic_case"])
        if is_raised(mid):
            out.fail("reread-raises|%s|v%s" % (mid.bucket, version), "%s\n%s" % (mid, text))
            return out
        version = pre["version"]
        text = attempt(build.write_text, mid, version=version)
        if is_raised(text):
            out.fail("write-raises|" + text.bucket, "second write (version=%r) of the re-read file: %s" % (version, text))
            return out
        mc1 = pre["mnemonic_case"]
        allrows = {sec: [[canon_case(r[0], mc1)] + list(r[1:]) for r in rows] for sec, rows in allrows.items()}
    back = read_text(text, mnemonic_case=mc)
    if is_raised(back):
        out.fail("reread-raises|%s|v%s" % (back.bucket, version), "%s\n%s" % (back, text))
        return out
    got = canon.from_las(back, data=False)
    first_curve = canon_case(desc["curves"][0][0], mc) if desc["curves"] else None
    for sec, rows in allrows.items():
        exp = expected_items(rows, sec, mc)
        items = got["sections"][SEC[sec]]["items"]
        if len(items) != len(exp):
            out.fail("item-count|%s|v%s" % (sec, version), "section %s: expected %d items %r, read %d %r\n%s" % (
                SEC[sec], len(exp), [e["orig"] for e in exp], len(items), [i["orig"] for i in items], text))
            continue
        for k, (g, e) in enumerate(zip(items, exp)):
            up = e["orig"].upper()
            skip = set()
            if sec == "W" and k < 3:
                skip |= {"value", "unit"}  # STRT/STOP/STEP refreshed from the data, units aligned
            if sec == "C" and k == 0:
                skip |= {"unit"}
            if sec == "V" and up == "VERS":
                skip |= {"value", "descr"}
                if pre:
                    skip |= {"orig", "sess"}  # the writer substitutes the standard (upper-case) VERS item
            if sec == "V" and up == "WRAP" and wrap is not None:
                skip |= {"value", "descr"}
                if pre:
                    skip |= {"orig", "sess"}
            for f in ("orig", "sess", "unit", "value", "descr"):
                if f in skip:
                    continue
                ok = canon.val_eq(g[f], e[f]) if f == "value" else g[f] == e[f]
                if not ok:
                    cause = classify(rows[k], sec, version, f, mc)
                    out.fail("%s.%s|%s|v%s" % (SEC[sec], f, cause, version),
                             "%s item %d %r field %s: read %r, expected %r (mnemonic_case=%s)\n%s"
                             % (SEC[sec], k, e["orig"], f, g[f], e[f], mc, text))
                    break
    exp_other = desc.get("other") or ""
    # the text is the list of its lines, an empty last line (text ending in a line break) included
    exp_lines = [ln.strip() for ln in exp_other.split("\n")] if exp_other != "" else []
    got_lines = got["sections"]["Other"]["text"]
    if got_lines != exp_lines:
        out.fail("Other.text|v%s" % version, "~Other lines read %r, expected %r\n%s" % (got_lines, exp_lines, text))
    return out


def classify(row, sec, version, field, mc):
    m, u, v, d = row
    pv = build.val(v)
    if u and (pv is None or pv == ""):
        return "empty-value-with-unit"
    if m.strip() == "":
        return "blank-mnemonic"
    if sec == "W" and m.upper() in ("STRT", "STOP", "STEP", "NULL") and m not in ("STRT", "STOP", "STEP", "NULL", "strt", "stop", "step", "null"):
        return "mixed-case-" + "layout-name"
    if sec == "W" and m in ("strt", "stop", "step", "null", "STRT", "STOP", "STEP", "NULL") and mc != "preserve":
        return "case-mapped-layout-name"
    return "plain"


# ---------------------------------------------------------------------------------------
# generators

NODOT = "".join(c for c in S.TEXT_CHARS if c not in ".:")


@st.composite
def value_spec(draw, nodot=False, allow_none=False):
    k = draw(st.integers(0, 11))
    if k == 0:
        return ["s", ""]
    if k == 1 and allow_none:
        return ["none"]
    if k == 2:
        return [draw(st.sampled_from(["i", "ni"])), draw(st.one_of(st.integers(-10 ** 6, 10 ** 6), st.sampled_from(
            [0, 2 ** 63 - 1, -2 ** 63, 2 ** 31, 7])))]
    if k == 3 and not nodot:
        x = draw(st.one_of(st.floats(-1e9, 1e9, allow_nan=False), st.sampled_from([0.0, -0.0, 1e-5, 1e22, 123456789.123, 5e-324, 1.7976931348623157e308])))
        return [draw(st.sampled_from(["f", "nf"])), repr(float(x))]
    if k == 4:
        t = draw(st.sampled_from(["007", "15_9", "1e5", "12-34-12-34W5M", "100091604920W300", "nan", "inf", "+5", "0x1F", "1,5", "5", "None"]))
        if nodot:
            t = t.replace(".", "")
        return ["s", t]
    if nodot:
        words = draw(st.lists(st.text(NODOT, min_size=1, max_size=8), min_size=1, max_size=3))
        return ["s", " ".join(words).strip() or "x"]
    t = draw(S.field_text(colon_ok=False))
    return ["s", t]


@st.composite
def descr_text(draw, nodot=False):
    if nodot:
        words = draw(st.lists(st.text(NODOT, min_size=1, max_size=8), min_size=0, max_size=3))
        return " ".join(words).strip()
    return draw(S.field_text(colon_ok=False))


@st.composite
def header_item(draw, sec, dup_pool, allow_blank=True):
    k = draw(st.integers(0, 11))
    blank = allow_blank and k == 0
    if blank:
        m = draw(st.sampled_from(["", "", " "])) if False else ""
    elif k == 1 and dup_pool:
        m = draw(st.sampled_from(dup_pool))
    elif k == 2:
        m = draw(st.text(S.LETTERS + S.DIGITS + "_", min_size=13, max_size=30))
    elif k == 3 and sec == "W":
        m = draw(st.sampled_from(["Strt", "Stop", "Step", "API", "UWI", "Api", "uwi", "COMP", "WELL"]))
    else:
        m = draw(S.mnemonic(allow_inner_blank=True))
    u = draw(S.unit(colon=False))
    if draw(st.integers(0, 11)) == 0:
        # a unit that opens with one kind of bracket and closes with the other is not a bracketed unit: it is kept whole
        u = draw(st.sampled_from(["[ft)", "(m]", "[0,1)", "(0,100]", "[deg)"]))
    if blank:
        u = u.replace(".", "")
        if not S._ok_unit(u):
            u = "un"
    v = draw(value_spec(nodot=blank, allow_none=sec in ("W", "P")))
    d = draw(descr_text(nodot=blank))
    if sec == "C":
        v = ["s", draw(st.sampled_from(["", "", "7 350 02 00", "45", "x y"]))]
    return [m, u, v, d]


@st.composite
def cases(draw):
    version = draw(st.sampled_from([1.2, 2]))
    pool = []

    def items(sec, lo, hi):
        rows = []
        for _ in range(draw(st.integers(lo, hi))):
            r = draw(header_item(sec, pool))
            rows.append(r)
            if r[0].strip():
                pool.append(r[0])
        # designate one item to be the widest of its section
        if rows and draw(st.booleans()):
            i = draw(st.integers(0, len(rows) - 1))
            which = draw(st.sampled_from(["value", "unit", "mnemonic", "descr"]))
            pad = draw(st.integers(20, 45))
            if which == "value" and rows[i][2][0] == "s" and rows[i][0].strip():
                rows[i][2] = ["s", (rows[i][2][1] + " " + "v" * pad).strip()]
            elif which == "unit":
                rows[i][1] = (rows[i][1] or "u") + "U" * pad
            elif which == "mnemonic" and rows[i][0].strip():
                rows[i][0] = rows[i][0] + "M" * pad
            elif which == "descr":
                rows[i][3] = (rows[i][3] + " " + "d" * pad).strip()
        return rows

    vextra = []
    for _ in range(draw(st.integers(0, 2))):
        r = draw(header_item("V", pool, allow_blank=False))
        vextra.append(r)
    well = items("W", 0, 6)
    if draw(st.integers(0, 7)) == 0:
        # items that merely share their name with the ones steering a read: in ~Well they are ordinary items
        well.append(draw(st.sampled_from([["VERS", "", ["f", "7.1"], "software version"], ["DLM", "", ["s", "SEMICOLON"], "export delimiter"],
                                         ["WRAP", "", ["s", "YES"], "gift wrap"]])))
    if draw(st.integers(0, 5)) == 0:
        # fields longer than any line width a writer might want to keep to: they are content, not layout
        well.append(draw(st.sampled_from([
            ["LOC", "", ["s", "1650 FT FROM THE NORTH LINE AND 990 FT FROM THE EAST LINE OF SECTION 12 TOWNSHIP 7 RANGE 3 WEST OF THE FIFTH"], "location"],
            ["RMK", "", ["s", "ok"], "remark " + "that goes on and on " * 6 + "until it ends"],
            ["EKB", "M", ["s", "x" * 85], "one word wider than a page"]])))
    params = items("P", 0, 8)
    nrows = draw(st.integers(1, 3))
    curves = []
    for j in range(draw(st.integers(1, 5))):
        m, u, v, d = draw(header_item("C", pool, allow_blank=(j > 0)))
        if j == 0 and not m.strip():
            m = "DEPT"
        curves.append([m, u, v[1], d, [repr(float(i + j * 10)) for i in range(nrows)]])
    other_lines = draw(st.lists(st.text(S.TEXT_CHARS.replace("~", "") + " :", min_size=1, max_size=30).map(str.strip).filter(
        lambda t: t and not t.startswith("~")), max_size=3))
    if len(other_lines) >= 2 and draw(st.booleans()):
        # paragraphs: empty lines between the first and the last line belong to the text
        k = draw(st.integers(1, len(other_lines) - 1))
        other_lines[k:k] = [""] * draw(st.integers(1, 2))
    if other_lines and draw(st.integers(0, 3)) == 0:
        other_lines += [""] * draw(st.integers(1, 3))  # the text ends with empty lines
    vfront = bool(vextra) and draw(st.integers(0, 3)) == 0
    desc = dict(version=vextra, version_front=vfront, well=well, params=params, curves=curves, other="\n".join(other_lines),
                strt_unit=draw(st.sampled_from(["m", "M", "FT", ""])), null=draw(st.sampled_from([["f", "-9999.25"], ["f", "-999.25"], ["i", -999]])))
    case = dict(desc=desc, version=version, mnemonic_case=draw(st.sampled_from(["preserve", "upper", "lower"])),
                wrap=draw(st.sampled_from([None, None, True, False])))
    if draw(st.integers(0, 5)) == 0:
        case["dlm_in_object"] = draw(st.sampled_from(["TAB", "COMMA"]))
    if draw(st.integers(0, 3)) == 0:
        case["pre"] = dict(mnemonic_case=draw(st.sampled_from(["preserve", "upper", "lower"])),
                           version=draw(st.sampled_from([1.2, 2])))
        # case variants of the layout-table names would become duplicates of STRT/STOP/STEP after a normalising read
        for row in desc["well"]:
            if row[0].upper() in ("STRT", "STOP", "STEP", "NULL"):
                row[0] = row[0] + "X"
        # a blank-mnemonic line cannot carry a period: values that turn into floats are written as '1.5' the second time
        from vlib.refparse import classify
        for sec in ("well", "params", "version"):
            for row in desc.get(sec, []):
                if row[0].strip() == "" and row[2][0] == "s" and classify(row[2][1])[0] in ("float", "either"):
                    row[2] = ["s", "x"]
    return case


def parts(tier):
    return [Hyp("generated-headers", cases, quick=12000, thorough=200000)]
