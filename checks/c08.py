"""C08 - header values become numbers only when they are numeric literals."""
import itertools

import numpy as np
from hypothesis import strategies as st

from vlib import canon, expect, lastext
from vlib.api import Enum, Hyp, Outcome, attempt, is_raised
from vlib.filecheck import read_spec, spec_summary
from vlib.refparse import classify

ID = "C08"
LEVEL = "exploration"
ALPHABET = "019+-.,eE_ axnif/:"
RULE = ("strings over the alphabet %r enumerated exhaustively up to length 5 (quick) / 6 (thorough), no leading or "
        "trailing blank, each given to the header value converter (SectionParser.num) and compared with an "
        "independent three-valued literal classifier (must-int / must-float / must-stay-text / either for '5.' and "
        "'.5'); longer near-literals (underscored, doubled signs, 64-bit edges, exponent edges) are generated; a "
        "sample and all named classes are also placed in ~V, ~W, ~P, custom and ~C sections of whole files, with "
        "API/UWI mnemonics in any case. Non-trivial: the string contains a digit and a non-digit." % ALPHABET)
ASSUMPTIONS = [
    "values reach the converter stripped of surrounding blanks (the line parser strips them)",
    "'5.', '.5', '5,', ',5' (bare decimal mark) may be returned as number or as text: the statement's 'optional "
    "fraction' does not settle them",
]

_parser = None


def parser():
    global _parser
    if _parser is None:
        from vlib.api import HarnessError
        try:
            from lasio.reader import SectionParser

            _parser = SectionParser("~Well", version=2.0)
            _parser.num  # noqa - the direct observation point of this check
        except (ImportError, AttributeError) as e:
            raise HarnessError("C08 observes lasio.reader.SectionParser.num directly; it is not there any more (%s): "
                               "adapt the check, this is not a violation" % e)
    return _parser


def feature(s):
    if "_" in s:
        return "underscore"
    if any(c.isspace() for c in s):
        return "inner-blank"
    low = s.lower().lstrip("+-")
    if low in ("inf", "nan", "infinity") or low.startswith("nan") or low.startswith("inf"):
        return "nonfinite-word"
    if not s.isascii():
        return "non-ascii"
    return "other"


def judge(s, got, out, where="num"):
    """Compare the converted value `got` with the classifier's verdict on text s."""
    kind, x = classify(s)
    is_int = isinstance(got, (int, np.integer)) and not isinstance(got, (bool, np.bool_))
    is_float = isinstance(got, (float, np.floating))
    is_str = isinstance(got, str)
    if kind == "int":
        if not (is_int and int(got) == x):
            out.fail("int-literal-not-int|%s" % where, "%r must become the integer %d, got %r (%s)" % (s, x, got, type(got).__name__))
    elif kind == "float":
        if not (is_float and float(got) == x):
            out.fail("float-literal-wrong|%s" % where, "%r must become the float %r, got %r (%s)" % (s, x, got, type(got).__name__))
    elif kind == "str":
        if not (is_str and got == s):
            out.fail("text-converted|%s|%s" % (feature(s), where),
                     "%r is not a plain decimal literal and must stay text, got %r (%s)" % (s, got, type(got).__name__))
    else:  # either
        ok = (is_str and got == s) or (is_float and float(got) == x) or (is_int and float(got) == x)
        if not ok:
            out.fail("bare-mark-literal-wrong|%s" % where, "%r: expected %r or the text itself, got %r" % (s, x, got))
    return kind


def oracle(case):
    if "file" in case:
        return oracle_file(case)
    s = case["s"]
    out = Outcome()
    got = attempt(parser().num, s)
    if is_raised(got):
        out.fail("num-raises|" + got.bucket, "num(%r) raised %s" % (s, got))
        return out
    kind = judge(s, got, out)
    out.cls("cls-" + kind)
    out.nontrivial = any(c in "0123456789" for c in s) and any(c not in "0123456789" for c in s)
    return out


def strings(tier):
    n = 5 if tier == "quick" else 6
    yield {"s": ""}
    for L in range(1, n + 1):
        for t in itertools.product(ALPHABET, repeat=L):
            if t[0] == " " or t[-1] == " ":
                continue
            yield {"s": "".join(t)}


# ---------------------------------------------------------------------------------------
# whole files

NAMED = ["15_9", "1_000", "1_0.5", "1e1_0", "12-34-12-34W5M", "100091604920W300", "25-DEC-1988", "14:30", "inf", "-inf",
         "nan", "NaN", "Infinity", "0x10", "0b1", "1e400", "-1e400", "", "007", "+7", "-0", "1,5", "1.5e3", "1E5", "5.",
         ".5", "9223372036854775807", "9223372036854775808", "-9223372036854775808", "-9223372036854775809",
         "1e308", "1.8e308", "4.9e-324", "1e-400", "1 2", "1/2", "1e", "e5", "--5", "+-5", "1.2.3", "1,2,3", "0.0", "1e+5",
         "１２", "٣", "1٣"]


def oracle_file(case):
    """Values placed in whole files: ~V, ~W, ~P, custom convert (API/UWI verbatim outside ~P); ~C never converts."""
    out = Outcome()
    s = case["s"]
    names = case.get("names") or ["VALA", "API", "uwi", "Api", "UWI", "APIN", "UWID", "XAPI", "api2", "Uwi_2", "MUWI", "A", "PI", "W", "uw", "IU", "I"]
    v12 = case.get("v12", False)
    it = lambda m: lastext.item(m, "", s, "descr")
    if case.get("param_only"):
        # a clock time: the colon is a separator everywhere except in ~Parameter, where the value stays the text it is
        pitems = [lastext.item(m, "", s, "descr", ) for m in ("TIML", "TLAB")]
        for ln in pitems:
            ln["p"] = ["", "", " ", " ", " ", ""]
        spec = {"nl": "\n", "final_nl": True, "sections": [
            lastext.section("V", "~Version", [lastext.item("VERS", "", "2.0", "v"), lastext.item("WRAP", "", "NO", "w")]),
            lastext.section("W", "~Well", [lastext.item("STRT", "M", "1", ""), lastext.item("STOP", "M", "2", ""), lastext.item("STEP", "M", "1", ""), lastext.item("NULL", "", "-999.25", "")]),
            lastext.section("C", "~Curves", [lastext.item("DEPT", "M", "", "d")]),
            lastext.section("P", "~Parameter", pitems),
            lastext.section("A", "~A", [lastext.row(["1"])], ncols=1)]}
        las = read_spec(spec, mnemonic_case="upper")
        out.cls("file", "clock-time-in-Parameter")
        out.nontrivial = True
        out.sample = dict(s=s)
        if is_raised(las):
            out.fail("file-read-raises|" + las.bucket, "%s\n%s" % (las, spec_summary(spec)))
            return out
        for item in las.params:
            if not (isinstance(item.value, str) and item.value == s):
                out.fail("text-converted|clock-time|Parameter", "~Parameter value %r must stay text, got %r (%s)" % (s, item.value, type(item.value).__name__))
        return out
    vsec = [lastext.item("VERS", "", case.get("vers") or ("1.2" if v12 else "2.0"), "v"), lastext.item("WRAP", "", "NO", "w"), it("XV")] + [it(m) for m in names if m.upper() in ("API", "UWI")]
    wsec = [lastext.item("STRT", "M", "1", ""), lastext.item("STOP", "M", "2", ""), lastext.item("STEP", "M", "1", ""),
            lastext.item("NULL", "", "-999.25", "")] + [it(m) for m in names]
    # section titles in either letter case: which values convert depends on the KIND of the section, not on its spelling
    T = (lambda t: t.lower()) if case.get("titles") == "lower" else (lambda t: t)
    secs = [lastext.section("V", T("~Version"), vsec), lastext.section("W", T("~Well"), wsec),
            lastext.section("C", T("~Curves"), [lastext.item("DEPT", "M", "", "d")] + ([it("GR")] if ".." not in s else [])),
            lastext.section("P", T("~Parameter"), [it(m) for m in names]),
            lastext.section("X", T("~Extra"), [it(m) for m in names]),
            lastext.section("A", T("~A"), [lastext.row(["1"] if ".." in s else ["1", "2"])], ncols=1 if ".." in s else 2)]
    spec = {"nl": "\n", "final_nl": True, "sections": secs}
    mc = case.get("mnemonic_case", "preserve")
    rkw = {}
    if case.get("read_policy") is not None:
        # the data-section substitution policy has no say in how HEADER values are converted
        rkw["read_policy"] = case["read_policy"]
        out.cls("read_policy-%r" % (case["read_policy"],))
    las = read_spec(spec, mnemonic_case=mc, **rkw)
    out.cls("file", "mc-" + mc, "v12" if v12 else ("v30" if case.get("vers") == "3.0" else "v20"))
    out.nontrivial = True
    out.sample = dict(s=s, names=names)
    if is_raised(las):
        out.fail("file-read-raises|" + las.bucket, "%s\n%s" % (las, spec_summary(spec)))
        return out
    for key, convert_named in (("Version", False), ("Well", False), ("Parameter", True), ("Extra", False)):
        sec = las.sections.get(key if key != "Extra" else T("~Extra")[1:])
        if sec is None or isinstance(sec, str):
            out.fail("file-section-missing", "section %s missing\n%s" % (key, spec_summary(spec)))
            continue
        for item in sec:
            om = item.original_mnemonic
            if om.upper() == "VERS" and case.get("vers") not in (None, "3.0"):
                judge(case["vers"], item.value, out, where="Version:VERS")  # `VERS. 2` is an integer literal like any other
                continue
            if om.upper() in ("VERS", "WRAP", "STRT", "STOP", "STEP", "NULL"):
                continue
            verbatim = (not convert_named) and om.upper() in ("API", "UWI")
            where = "%s:%s" % (key, "api-uwi" if om.upper() in ("API", "UWI") else "plain")
            if verbatim:
                if not (isinstance(item.value, str) and item.value == s):
                    out.fail("api-uwi-not-verbatim|" + key, "%s item %r: value %r must stay the text %r" % (key, om, item.value, s))
            else:
                judge(s, item.value, out, where=where)
    if ".." not in s:
        gr = las.curves[1]
        if not (isinstance(gr.value, str) and gr.value == s):
            out.fail("curve-value-converted", "~C item value %r must stay the text %r" % (gr.value, s))
    return out


def named_files(tier):
    for s in NAMED:
        if ":" in s:
            continue
        for mc in ("preserve", "upper", "lower"):
            for v12 in (False, True):
                if v12 and mc != "preserve":
                    continue  # LAS 1.2 (value after the colon in ~W): one mnemonic_case is enough
                yield {"file": 1, "s": s, "mnemonic_case": mc, "v12": v12}
                if mc == "preserve":
                    yield {"file": 1, "s": s, "mnemonic_case": mc, "v12": v12, "titles": "lower"}
                if mc == "upper" and not v12:
                    yield {"file": 1, "s": s, "mnemonic_case": mc, "v12": False, "read_policy": []}
                    yield {"file": 1, "s": s, "mnemonic_case": mc, "v12": False, "read_policy": "comma-delimiter"}
                    yield {"file": 1, "s": s, "mnemonic_case": mc, "v12": False, "vers": "2"}
                if mc == "upper" and not v12:
                    # a file that declares VERS 3.0 but is laid out like a 2.0 file (lasio's partial 3.0 support): the
                    # kinds of its sections, and so which values convert, are the same
                    yield {"file": 1, "s": s, "mnemonic_case": mc, "v12": False, "vers": "3.0"}
    for h in range(24):
        for m in (0, 5, 30, 59):
            yield {"file": 1, "s": "%02d:%02d" % (h, m), "param_only": True}
            yield {"file": 1, "s": "%d:%02d:%02d" % (h, m, (h * 7) % 60), "param_only": True}
            yield {"file": 1, "s": "%02d:%02d 12-JAN-2001" % (h, m), "param_only": True}
    # 1/50 sample of the short-string space
    for i, c in enumerate(strings("quick" if tier == "quick" else "quick")):
        if i % (50 if tier == "thorough" else 400) == 7 and ":" not in c["s"]:
            yield {"file": 1, "s": c["s"], "mnemonic_case": "upper", "v12": False}


@st.composite
def near_literals(draw):
    base = draw(st.one_of(
        st.integers(-2 ** 70, 2 ** 70).map(str),
        st.integers(2 ** 63 - 3, 2 ** 63 + 3).map(str),
        st.integers(-2 ** 63 - 3, -2 ** 63 + 3).map(str),
        st.floats(allow_nan=False, allow_infinity=False).map(repr),
        st.tuples(st.integers(0, 999), st.integers(0, 999), st.integers(300, 420), st.sampled_from("+-")).map(
            lambda t: "%d.%de%s%d" % (t[0], t[1], t[3], t[2])),
        st.from_regex(r"[+-]?[0-9]{1,6}([.,][0-9]{1,6})?([eE][+-]?[0-9]{1,3})?", fullmatch=True),
    ))
    mut = draw(st.integers(0, 6))
    if mut == 0 and len(base) > 1:
        i = draw(st.integers(1, len(base) - 1))
        base = base[:i] + "_" + base[i:]
    elif mut == 1:
        base = draw(st.sampled_from("+-")) + base
    elif mut == 2:
        base = base + draw(st.sampled_from(["e5", "E-3", "e", ".", ",", "f", "L", "j", " 1", "d0"]))
    elif mut == 3 and len(base) > 1:
        i = draw(st.integers(1, len(base) - 1))
        base = base[:i] + draw(st.sampled_from([" ", ".", ",", "e", "-", "+", "/", ":"])) + base[i:]
    base = base.strip()
    return {"s": base}


def parts(tier):
    return [
        Enum("short-strings-exhaustive", strings),
        Enum("values-in-files", named_files, max_shards=16),
        Hyp("near-literals", near_literals, quick=20000, thorough=400000),
    ]
