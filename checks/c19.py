"""C19 - ignore_header_errors makes header parsing tolerant and non-interfering."""
import copy
import logging

from hypothesis import strategies as st

from vlib import canon, lastext, refparse, strategies as S
from vlib.api import Hyp, Outcome, attempt, is_raised
from vlib.filecheck import read_text, spec_summary

ID = "C19"
LEVEL = "exploration"
RULE = ("base = generated FileSpec (versions 1.2/2.0, optional ~P and custom section, conformant items) or an example "
        "file; 1..5 junk lines (random printable ASCII, or adversarial: only punctuation, '.', ':', '..', quotes, 300+ "
        "characters, data-like rows, tabs, percent/brace/backslash sequences, STRT/STOP/STEP names with units of punctuation "
        "in files that lack those items) inserted at any position of ~V, ~W, ~P "
        "and custom sections (never ~C); lines that start with '~' or whose parsed name is VERS/WRAP/DLM/NULL are "
        "excluded (counted). Oracle with ignore_header_errors=True: no exception; a line with neither '.' nor ':' "
        "yields a warning record naming it and no item; the genuine items of every section are an order-preserving "
        "subsequence of the result with unchanged original mnemonic, unit, value, description; curve data identical. "
        "Without the flag: success with the same guarantees, or LASHeaderError whose message contains a junk line. "
        "Non-trivial: >= 1 junk line that is not blank and not a '#' comment.")
ASSUMPTIONS = [
    "a junk line that lasio can parse legitimately becomes an additional item (it may change session-name suffixes of "
    "equally named genuine items, which the statement does not forbid)",
    "the set of lines that MUST be skipped with a warning is taken narrowly: lines with neither a period nor a colon",
]

STEER = {"VERS", "WRAP", "DLM", "NULL"}
ADVERSARIAL = [
    ".", ":", "..", "...", ". :", ".:", ":.", ":::", ".:.:", "\"", "'", "\"\"", "''", "\"# Surface Coords: 1,000' FNL & 2,000' FWL\"",
    "DEPTH     DT       RHOB     NPHI     SFLU     SFLA      ILM      ILD", "1670.000   123.450 2550.000    0.450", "-999.25",
    "[]", "()", "[.]", "(:)", "%s %d %(x)s", "{} {0} {x}", "\\", "\\n\\t", "a\tb\tc", "\t.\t:\t", "x" * 300, "x." + "y" * 300 + " : z",
    ("a" * 150) + "." + ("b" * 150), "a.b.c.d.e", "a:b:c:d", "a.b:c", "a . b : c", ".a", "a.", ":a", "a:", " . ", "-", "--", "- : -", "!@$%^&*",
    "<>?/\\|", "`~`", "A..B", "A..B : c", "1000 lbf", ".1000 lbf : x", "MN.1000 lbf", "12:30", "12:30:45", " 12:30 : 13:40", "hh:mm", ".hh:mm",
    "é", "=== end ===", "END", "UNKNOWN", "UNKNOWN.", "mnemonic", "#", "# comment", "", "   ", "0", "0.", "0.0", ".0", "1e5", "nan", "inf.", "None",
    "STRT", "STOP.", "STEP.M 1 : x", "API . 0001 : a", "UWI. 007", "COMP.  : ", "X.Y Z", "X .Y Z : W",
    # parsable lines whose value stresses the number conversion that runs after the regex step
    "SERIAL. 123456789012345678901234567890 : serial", "BIG. 9223372036854775808 : just beyond int64", "NEG. -9223372036854775809 :",
    "OVF. 1e999 : overflow", "OVF2. -1e400", "TINY. 1e-999 : underflow", "HUGE." + " " + "9" * 400 + " : digits", "MIX. 1,5e3 : comma",
    "U. 15_9 : underscore", "NANV. nan : nan", "INFV. -inf", "PCT%. 45 : percent in name", "PCT%. 46 : percent in name again",
    "%s. 1 : format", "%s. 2 : format", "%d%%. 3", "{0}. 4 : braces", "{0}. 5 : braces",
    # parsable lines whose unit is an (empty) bracket pair or nested brackets: bracket stripping runs after the regex step
    "X.[] 1 : empty brackets", "X.() : empty parentheses", ".[]", ".() :", "Y.[[]] : nested", "Z.(()) 5", "B.[(m)] 2 : twice wrapped",
    "x" * 5000, "LONG." + "y" * 6000 + " : z", "L2. 1 : " + "d" * 9000, ("w " * 3000).strip(),
    # index-item names with units made of punctuation: a file that lacks the genuine item takes these lines as STRT/STOP/STEP
    "STEP.( 0.5 : (", "STOP.[ 1 : [", "strt.+ + : +", "STEP.*m 1", "Stop.m) 2 : x", "STRT.\\ 1", "STEP.?? : ??", "STRT.(?P<x> 5",
    "B.[ ] 3", "B.( ) : blank inside", "Q.[ : half open", "Q.) 4 : half closed", "q7.%% @ : &&junk", "U.[m 5 : x", "U.m] 5 : x",
]

PRINTABLE = "".join(chr(c) for c in range(32, 127)) + "\t"


def lasio_name(line, section):
    import lasio.reader as R

    try:
        return R.read_header_line(line, section_name=section)["name"]
    except Exception:  # noqa
        return None


SECNAME = {"V": "Version", "W": "Well", "P": "Parameter"}


def excluded(line, sec):
    s = line.strip()
    if s.startswith("~"):
        return True
    names = []
    secname = SECNAME.get(sec["kind"], sec["title"])
    try:
        names.append(refparse.parse_line(s, secname)["name"])
    except refparse.Unparsable:
        pass
    n = lasio_name(s, secname)
    if n is not None:
        names.append(n)
    return any(x.strip().upper() in STEER for x in names)


class Capture(logging.Handler):
    def __init__(self):
        logging.Handler.__init__(self, level=logging.WARNING)
        self.records = []

    def emit(self, record):
        try:
            self.records.append(record.getMessage())
        except Exception:  # noqa
            self.records.append(str(record.msg))


def read_capturing(text, **kw):
    """Read with every warning lasio emits captured: records of level >= WARNING on any 'lasio*' logger, and Python
    warnings. (The statement says 'skipped with a warning'; it does not say through which logger.)"""
    import warnings

    lg = logging.getLogger("lasio")
    children = [logging.getLogger(n) for n in list(logging.root.manager.loggerDict) if n.startswith("lasio.")]
    saved = [(x, x.level, x.propagate) for x in [lg] + children]
    h = Capture()
    lg.addHandler(h)
    lg.setLevel(logging.WARNING)
    lg.propagate = False
    for c in children:
        if c.level > logging.WARNING:
            c.setLevel(logging.NOTSET)
    try:
        with warnings.catch_warnings(record=True) as caught:
            warnings.simplefilter("always")
            las = read_text(text, **kw)
    finally:
        lg.removeHandler(h)
        for x, level, prop in saved:
            x.setLevel(level)
            x.propagate = prop
    return las, h.records + [str(w.message) for w in caught]


def key(it):
    return (it["orig"], it["unit"], it["value"], it["descr"])


def is_subsequence(genuine, result):
    i = 0
    for it in result:
        if i < len(genuine) and it["orig"] == genuine[i]["orig"] and it["unit"] == genuine[i]["unit"] \
                and canon.val_eq(it["value"], genuine[i]["value"], numeric_loose=False) and it["descr"] == genuine[i]["descr"]:
            i += 1
    return i == len(genuine), i


def check_result(out, las, base, junk_lines, tag, text, mode):
    cb, cr = canon.from_las(base), canon.from_las(las)
    for name, sec in cb["sections"].items():
        if name not in cr["sections"]:
            out.fail("section-lost|" + tag, "section %r disappeared\n%s" % (name, text))
            continue
        res = cr["sections"][name]
        if "text" in sec:
            if sec != res:
                out.fail("other-text-changed|" + tag, "%r vs %r\n%s" % (sec, res, text))
            continue
        ok, n = is_subsequence(sec["items"], res.get("items", []))
        extra = len(res.get("items", [])) - len(sec["items"])
        if ok and extra > len(junk_lines):
            # a junk line may be read as an item of its own, but it cannot make a section take up lines of the sections
            # behind it: there are at most as many additional items as junk lines
            out.fail("section-swallowed-foreign-lines|%s|%s" % (name if name in ("Version", "Well", "Curves", "Parameter") else "custom", tag),
                     "section %s has %d items more than without the %d junk line(s): %r\njunk=%r\n%s"
                     % (name, extra, len(junk_lines), [key(i) for i in res.get("items", [])], junk_lines, text))
        if not ok:
            g = sec["items"][n]
            out.fail("genuine-item-changed|%s|%s" % (name if name in ("Version", "Well", "Curves", "Parameter") else "custom", tag),
                     "genuine item #%d %r of section %s not found unchanged (in order) in the result %r\njunk=%r\n%s"
                     % (n, key(g), name, [key(i) for i in res.get("items", [])], junk_lines, text))
    d = canon.diff({"sections": {}, "data": cr["data"]}, {"sections": {}, "data": cb["data"]}, names=("with-junk", "base"))
    if d:
        out.fail("data-changed|" + tag, canon.show(d) + "\njunk=%r\n%s" % (junk_lines, text))


def wrong_line_number(message, line, text):
    """lasio's messages read `Line N (section ...): "<line>"`. When a message has that form, N must be the (1-based) number
    of a line of the file that holds this text; a message of another form is not judged."""
    import re

    m = re.match(r"\s*Line (\d+) \(section .*?\): \"(.*)\"\s*$", message, re.S)
    if not m or m.group(2).strip() != line.strip():
        return None  # another form, or the message is about another line that merely contains this text
    n = int(m.group(1))
    where = [i + 1 for i, l in enumerate(text.split("\n")) if l.strip() == line.strip()]
    if where and n not in where:
        return "the message %r gives line %d, but %r stands on line(s) %r" % (message[:200], n, line, where[:6])
    return None


def run_oracle(out, base_text, junk_text, junk_lines, must_warn, read_kw, tag):
    base = read_text(base_text, **read_kw)
    if is_raised(base):
        out.rejected = True
        out.cls("base-unreadable")
        return
    las, records = read_capturing(junk_text, ignore_header_errors=True, **read_kw)
    if is_raised(las):
        out.fail("raises-with-flag|%s|%s" % (las.bucket, tag), "ignore_header_errors=True but read() raised %s\njunk=%r\n%s"
                 % (las, junk_lines, junk_text))
    else:
        check_result(out, las, base, junk_lines, tag, junk_text, "flag")
        for ln in sorted(set(must_warn)):
            naming = [r for r in records if ln in r]
            if not naming:
                out.fail("no-warning-for-skipped-line|" + tag, "junk line %r has neither '.' nor ':' but no warning names it; "
                         "warnings=%r\n%s" % (ln, records[:5], junk_text))
            elif len(naming) < must_warn.count(ln):
                # every skipped line is reported, also when the same text is skipped more than once
                out.fail("fewer-warnings-than-skipped-lines|" + tag, "junk line %r stands %d times in the file but only %d warning(s) name it; "
                         "warnings=%r\n%s" % (ln, must_warn.count(ln), len(naming), records[:5], junk_text))
            else:
                for r in naming:
                    bad = wrong_line_number(r, ln, junk_text)
                    if bad:
                        out.fail("warning-names-wrong-line-number|" + tag, bad + "\n" + junk_text)
                        break
    # without the flag
    las2 = read_text(junk_text, **read_kw)
    if is_raised(las2):
        if las2.type != "LASHeaderError":
            out.fail("wrong-exception-without-flag|%s|%s" % (las2.bucket, tag), "expected success or LASHeaderError, got %s\njunk=%r\n%s"
                     % (las2, junk_lines, junk_text))
        elif not any(j.strip() and j.strip() in str(las2.exc) for j in junk_lines):
            out.fail("header-error-does-not-name-line|" + tag, "LASHeaderError message %r names none of the junk lines %r"
                     % (str(las2.exc), junk_lines))
        else:
            for j in junk_lines:
                if j.strip() and j.strip() in str(las2.exc):
                    bad = wrong_line_number(str(las2.exc), j.strip(), junk_text)
                    if bad and not any(o.strip() != j.strip() and o.strip() and o.strip() in str(las2.exc) and
                                       not wrong_line_number(str(las2.exc), o.strip(), junk_text) for o in junk_lines):
                        out.fail("header-error-names-wrong-line-number|" + tag, bad + "\n" + junk_text)
                    break
        out.cls("noflag-LASHeaderError")
    else:
        out.cls("noflag-success")
        check_result(out, las2, base, junk_lines, tag + "|noflag", junk_text, "noflag")


def oracle(case):
    if "file" in case:
        return oracle_corpus(case)
    out = Outcome()
    spec = case["spec"]
    junk_spec = copy.deepcopy(spec)
    junk_lines, must_warn, n_excl = [], [], 0
    kinds = set()
    for si, pos, text in sorted(case["junk"], key=lambda j: (j[0], -j[1])):
        sec = junk_spec["sections"][si % len(junk_spec["sections"])]
        if sec["kind"] not in ("V", "W", "P", "X"):
            continue
        if excluded(text, sec):
            n_excl += 1
            continue
        sec["lines"].insert(pos % (len(sec["lines"]) + 1), {"t": "junk", "text": text})
        junk_lines.append(text)
        kinds.add(sec["kind"])
        s = text.strip()
        if s and not s.startswith("#") and "." not in s and ":" not in s:
            must_warn.append(s)
    out.excluded = n_excl > 0 and not junk_lines
    out.cls(*["junk-in-" + k for k in sorted(kinds)])
    if n_excl:
        out.cls("some-junk-excluded")
    out.nontrivial = any(j.strip() and not j.strip().startswith("#") for j in junk_lines)
    out.sample = dict(junk=[j if len(j) < 200 else j[:60] + "...[%d chars]" % len(j) for j in junk_lines], mnemonic_case=case["mnemonic_case"])
    tag = sorted(kinds)[0] if len(kinds) == 1 else ("several" if kinds else "none")
    run_oracle(out, lastext.render(spec), lastext.render(junk_spec), junk_lines, must_warn,
               dict(mnemonic_case=case["mnemonic_case"]), tag)
    return out


junk_line = st.one_of(
    st.sampled_from(ADVERSARIAL),
    st.text(PRINTABLE, max_size=40),
    st.text(".:\"'[]()#~ \t-_%{}\\", max_size=12),
    st.tuples(st.text(PRINTABLE, max_size=12), st.sampled_from([".", ":", " .", " : ", "..", ". :"]), st.text(PRINTABLE, max_size=12)).map("".join),
)


@st.composite
def cases(draw):
    v12 = draw(st.booleans())
    secs = [lastext.section("V", "~Version", [lastext.item("VERS", "", "1.2" if v12 else "2.0", "v"), lastext.item("WRAP", "", "NO", "w")])]
    wl = [lastext.item("STRT", "M", "1", "start"), lastext.item("STOP", "M", "2", "stop"), lastext.item("STEP", "M", "1", "step"),
          lastext.item("NULL", "", "-999.25", "null")]
    # files without a STRT, STOP or STEP item exist (irregular sampling, sample_TVD.las): a junk line of that name is then
    # the only item of that name
    lack = draw(st.sampled_from([(), (), (), (2,), (1, 2), (0, 1), (0, 1, 2)]))
    wl = [x for i, x in enumerate(wl) if i not in lack]
    wl += draw(st.lists(S.item_line(kind="W", v12=v12), max_size=3))
    # terse genuine lines (no period, or no colon): fields that are absent from the line must stay empty
    TERSE = ["HOLE DIA :85.7", "PERM DAT :1", "DRILLED  :12/11/2010", "RUN.FT 12", "BS.MM 216", "LOGGER : J SMITH", "TD.M", "KB. 12.5"]
    for pos_t in draw(st.lists(st.tuples(st.integers(4, 8), st.sampled_from(TERSE)), max_size=3)):
        wl.insert(min(pos_t[0], len(wl)), {"t": "text", "text": pos_t[1]})
    secs.append(lastext.section("W", "~Well", wl))
    secs.append(lastext.section("C", "~Curves", [lastext.item("DEPT", "M", "", "depth"), lastext.item("GR", "GAPI", "", "gamma")]))
    if draw(st.booleans()):
        secs.append(lastext.section("P", "~Parameter", draw(st.lists(S.item_line(kind="P", v12=v12), max_size=3))))
    if draw(st.booleans()):
        secs.append(lastext.section("X", "~Tops", draw(st.lists(S.item_line(kind="X", v12=v12), max_size=3))))
    secs.append(lastext.section("A", "~A", [lastext.row(["1", "10.5"]), lastext.row(["2", "-999.25"])], ncols=2))
    if draw(st.integers(0, 4)) == 0:
        # ~Well in front of ~Version (lasio reads such files): whatever is done to learn the version early must be as
        # tolerant as the regular pass
        secs[0], secs[1] = secs[1], secs[0]
    n = draw(st.integers(1, 5))
    junk = [[draw(st.integers(0, len(secs) - 1)), draw(st.integers(0, 8)), draw(junk_line)] for _ in range(n)]
    # steer the section index towards sections that accept junk
    ok = [i for i, s in enumerate(secs) if s["kind"] in ("V", "W", "P", "X")]
    for j in junk:
        if j[0] not in ok:
            j[0] = ok[j[0] % len(ok)]
    var = draw(S.scaffold())
    if var:
        var["drop_wrap_no"] = False
        S.apply_scaffold({"sections": secs}, var)
    return {"spec": {"nl": "\n", "final_nl": True, "sections": secs}, "junk": junk,
            "mnemonic_case": draw(st.sampled_from(["upper", "preserve", "lower"]))}


# ---------------------------------------------------------------------------------------
# corpus bases

CORPUS = ["alog.las", "sample.las", "1.2/sample.las", "2.0/sample_2.0.las", "6038187_v1.2_short.las", "non-standard-header-section.las",
          "mnemonic_duplicate2.las", "sample_TVD.las", "2.0/sample_2.0_minimal.las", "1.2/sample_wrapped.las"]


def oracle_corpus(case):
    from checks.c09 import load_text, section_of_lines

    out = Outcome()
    text = load_text(case["file"])
    if text is None:
        out.rejected = True
        return out
    text = text.replace("\r\n", "\n")
    lines = text.split("\n")
    junk_lines, must_warn, n_excl = [], [], 0
    for pos, jt in case["junk"]:
        sec = section_of_lines(lines)
        cand = [i for i in range(1, len(lines) + 1) if sec[i - 1] in ("V", "W", "P", "TV", "TW", "TP")]
        if not cand:
            continue
        i = cand[pos % len(cand)]
        owner = sec[i - 1][-1]
        if excluded(jt, {"kind": owner, "title": "~" + owner}):
            n_excl += 1
            continue
        lines.insert(i, jt)
        junk_lines.append(jt)
        s = jt.strip()
        if s and not s.startswith("#") and "." not in s and ":" not in s:
            must_warn.append(s)
    out.cls("corpus")
    out.nontrivial = any(j.strip() and not j.strip().startswith("#") for j in junk_lines)
    out.sample = dict(file=case["file"], junk=junk_lines)
    run_oracle(out, text, "\n".join(lines), junk_lines, must_warn, {}, "corpus")
    return out


@st.composite
def corpus_cases(draw):
    return {"file": draw(st.sampled_from(CORPUS)),
            "junk": [[draw(st.integers(0, 200)), draw(junk_line)] for _ in range(draw(st.integers(1, 4)))]}


def parts(tier):
    return [
        Hyp("junk-in-generated-files", cases, quick=10000, thorough=150000),
        Hyp("junk-in-example-files", corpus_cases, quick=1500, thorough=30000),
    ]
