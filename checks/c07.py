"""C07 - curves are rectangular and bound to their own column."""
from hypothesis import strategies as st

from vlib import canon, expect, lastext
from vlib.api import Enum, Hyp, Outcome, is_raised
from vlib.filecheck import compare_with_expected, read_spec, spec_summary

ID = "C07"
LEVEL = "exploration"
RULE = ("case = (declared curves d, data columns c, rows r, engine, wrapping layout, sign pattern, noise lines); "
        "cell (i,j) carries its own coordinates (i+1)+(j+1)/1000 so any displacement is visible; the file is "
        "rendered from a FileSpec and the reading is compared cell by cell and item by item with the expected "
        "reading. The (d,c,r) grid d 0..6 x c 1..7 x r 1..5 x 2 engines and the wrapped grid are enumerated "
        "exhaustively (with DLM COMMA/TAB also under mnemonic_case='lower'; noise = blank lines, '#' comments, indented "
        "comments of many words); larger shapes are generated with mnemonic_case in {upper, lower, preserve}. Non-trivial: d != c, or wrapped with c a multiple of the "
        "per-line count, or r == 1, or c == 1, or a hyphen in every data line.")
ASSUMPTIONS = [
    "every data line carries the same number of values (premise of the property); wrapped files declare exactly "
    "the curves they carry (d == c), which is the only column information a wrapped file has",
    "a read that raises is counted as rejected (the property speaks about successful reads)",
]


def cell(i, j, sign):
    s = "%d.%03d" % (i + 1, j + 1)
    if sign == "neg" or (sign == "mixed" and (i + j) % 2 == 1):
        s = "-" + s
    return s


def build(case):
    d, c, r = case["d"], case["c"], case["r"]
    sign = case.get("sign", "pos")
    wrap = case.get("wrap", 0)  # 0 = not wrapped, p>0 = p values per physical line
    names = ["C%d" % k for k in range(d)]
    if case.get("names") == "numeric":
        # numbered channels whose name is the text of ANOTHER position: "1", "2", ..., "0"
        names = [str((k + 1) % max(d, 1)) for k in range(d)]
    curves = [(names[k], "u%d" % k, "", "curve %d" % k) for k in range(d)]
    rows = []
    for i in range(r):
        toks = [cell(i, j, sign) for j in range(c)]
        if case.get("dates") is not None and c >= 2:
            # a DATE column; a missing date is written as the NULL value: every line carries a hyphen (in the date or in
            # -999.25), the documented condition for leaving dates in one piece
            k = 1 + case["dates"] % (c - 1)
            toks[k] = "-999.25" if (r >= 2 and i == r // 2) else "2020-%02d-%02d" % (i % 12 + 1, k % 28 + 1)
        if case.get("empty_col") is not None and c >= 2:
            toks[1 + case["empty_col"] % (c - 1)] = ""  # a cell that is empty on every line (`1.001,,1.003`) is still a column
        if case.get("quoted") and c >= 3:
            # two quoted text cells on one line (blanks inside): each is one value of its own column
            toks[1] = '"r%d a"' % (i + 1)
            toks[c - 1] = '"r%d z"' % (i + 1)
        if case.get("index") == "text":
            toks[0] = "T%02d" % (i + 1)  # a time-stamp-like text index: the other curves are still float columns
        if not wrap:
            rows.append(toks)
        else:
            rest = toks
            if case.get("index_alone"):
                rows.append(toks[:1])
                rest = toks[1:]
            for k in range(0, len(rest), wrap):
                rows.append(rest[k:k + wrap])
    dlm = case.get("dlm")
    spec = lastext.simple_spec(curves, rows, wrap="YES" if wrap else "NO", dlm=dlm,
                               nl=case.get("nl", "\n"), final_nl=case.get("final_nl", True))
    a = spec["sections"][-1]
    a["ncols"] = c
    for t in case.get("after", []):
        if t == "P":
            spec["sections"].append(lastext.section("P", "~Parameter", [lastext.item("BHT", "DEGC", "35.5", "temp"), lastext.item("MUD", "", "GEL", "mud")]))
        elif t == "O":
            spec["sections"].append(lastext.section("O", "~Other", [{"t": "text", "text": "1 2 3 4"}, {"t": "text", "text": "5 6 7 8"}]))
    if case.get("version_section") == "no-wrap-item":
        v = spec["sections"][0]
        v["lines"] = [ln for ln in v["lines"] if ln.get("m") != "WRAP"]
    elif case.get("version_section") == "absent":
        spec["sections"] = spec["sections"][1:]
    if dlm in ("COMMA", "TAB"):
        for ln in a["lines"]:
            ln["seps"] = ["," if dlm == "COMMA" else "\t"] * max(0, len(ln["toks"]) - 1)
    if case.get("pack"):
        # a wrapped file may put several depth steps on one physical line: regroup the token stream k per line
        toks_ = [t for ln in a["lines"] if ln["t"] == "row" for t in ln["toks"]]
        a["lines"] = [lastext.row(toks_[k:k + case["pack"]]) for k in range(0, len(toks_), case["pack"])]
    if case.get("ctrlz") and not case.get("after"):
        # a DOS end-of-file marker right after the last value of the file (no line break before it)
        rows_ = [ln for ln in a["lines"] if ln["t"] == "row"]
        if rows_ and case["ctrlz"] == "line":
            a["lines"].append({"t": "blank", "text": "\x1a"})  # ... or on a line of its own
        elif rows_:
            rows_[-1]["trail"] = " \x1a" if case["ctrlz"] == "blank" else "\x1a"
    if case.get("runon"):
        # FORTRAN-style fixed-width columns: a wide negative value runs into the value before it (100.50-110.50); the
        # file is read with accept_regexp_sub_recommendations=False, the documented switch for this kind of file
        for ln in a["lines"]:
            if ln["t"] == "row":
                ln["seps"] = ["" if t.startswith("-") else " " for t in ln["toks"][1:]]
    # light noise: blank / comment lines at given positions of the data section
    for pos, kind in sorted((list(x) for x in case.get("noise", [])), reverse=True):
        ln = {"t": "blank", "text": ""} if kind == "b" else {"t": "comment", "text": "# note"}
        if kind == "i":
            # an indented comment whose word count is no column count of the file
            ln = {"t": "comment", "text": "   # not a row: 1 2 3 4 5 6 7 8 9 10 11 12 13"}
        elif kind == "t":
            ln = {"t": "comment", "text": "\t#1 2"}
        elif kind == "w":
            ln = {"t": "comment", "text": "#" + " ".join(["logged"] * max(1, c))}  # exactly as many words as there are columns
        a["lines"].insert(min(pos, len(a["lines"])), ln)
    if case.get("comment_char"):
        for ln in a["lines"]:
            if ln["t"] == "comment":
                ln["text"] = ln["text"].replace("#", case["comment_char"])
    from vlib import strategies as S_
    return S_.apply_scaffold(spec, case.get("scaffold"))


def oracle(case):
    out = Outcome()
    d, c, r = case["d"], case["c"], case["r"]
    wrap = case.get("wrap", 0)
    spec = build(case)
    out.sample = dict(case=case, text=spec_summary(spec, 400))
    out.cls("dlm-" + str(case.get("dlm") or "SPACE"))
    if case.get("version_section"):
        out.cls("version-section-" + case["version_section"])
    if case.get("names"):
        out.cls("names-" + case["names"])
    if case.get("index"):
        out.cls("index-" + case["index"])
    if case.get("dates") is not None:
        out.cls("date-column")
    out.cls("wrapped" if wrap else "unwrapped", "engine-" + case["engine"],
            "d<c" if d < c else "d>c" if d > c else "d=c", "sign-" + case.get("sign", "pos"))
    if case.get("noise"):
        out.cls("noise")
    if case.get("after"):
        out.cls("trailing-section")
    out.nontrivial = (d != c) or (wrap and c % wrap == 0 and c > wrap) or r == 1 or c == 1 \
        or case.get("sign") == "neg"
    mc = case.get("mnemonic_case", "upper")
    if mc != "upper":
        out.cls("mnemonic_case-" + mc)
    kw = {}
    if case.get("comment_char"):
        kw["ignore_data_comments"] = case["comment_char"]  # the file's data comments use the character the caller names
        out.cls("comment-char-" + case["comment_char"])
    if case.get("dtypes"):
        # one dtype per DECLARED curve, as list or as dict by name: the caller states types, not the layout of the file
        if case["dtypes"] == "list":
            kw["dtypes"] = [float] * case["d"]
        else:
            kw["dtypes"] = {}
        out.cls("dtypes-" + case["dtypes"])
    if case.get("null_policy"):
        kw["null_policy"] = case["null_policy"]  # no cell of these files is a null marker of any policy
        out.cls("null_policy-" + case["null_policy"])
    if case.get("ctrlz"):
        out.cls("ctrl-z-after-last-value")
    if case.get("runon"):
        kw["accept_regexp_sub_recommendations"] = False
        out.cls("run-on-negatives")
    las = read_spec(spec, engine=case["engine"], mnemonic_case=mc, **kw)
    if is_raised(las):
        out.rejected = True
        out.cls("rejected:" + las.bucket)
        return out
    lens = [len(cv.data) for cv in las.curves]
    if len(set(lens)) > 1:
        out.fail("ragged-curves|%s" % ("wrap" if wrap else "nowrap"),
                 "curve lengths differ: %r\n%s" % (lens, spec_summary(spec)))
        return out
    diffs, got, exp = compare_with_expected(las, spec, mnemonic_case=mc)
    # C07 is about the curve collection: Curves items and data
    diffs = [x for x in diffs if x[0].startswith("Curves") or x[0].startswith("data")]
    if diffs:
        out.fail("%s|%s|%s" % (diffs[0][0], "wrap" if wrap else "nowrap", case["engine"]),
                 "d=%d c=%d r=%d\n%s\n--- file ---\n%s" % (d, c, r, canon.show(diffs), spec_summary(spec)))
    return out


def grid(tier):
    dmax, cmax, rmax = (6, 7, 5) if tier == "quick" else (9, 12, 7)
    for engine in ("numpy", "normal"):
        for d in range(0, dmax + 1):
            for c in range(1, cmax + 1):
                for r in range(1, rmax + 1):
                    for sign in ("pos", "neg"):
                        yield dict(d=d, c=c, r=r, engine=engine, sign=sign)
                        if r <= 3 and c <= 5 and d <= 5:
                            for dlm in ("COMMA", "TAB"):
                                yield dict(d=d, c=c, r=r, engine=engine, sign=sign, dlm=dlm)
                                if sign == "pos":
                                    yield dict(d=d, c=c, r=r, engine=engine, sign=sign, dlm=dlm, mnemonic_case="lower")
                        if sign == "pos" and r <= 3 and c <= 6:
                            # what the last line of ~A looks like, with and without a following section
                            many = [[0, "c"]] * 11 + [[0, "b"]] * 11
                            for noise in ([[r, "b"]], [[r, "c"]], [[0, "c"]], [[r, "c"], [r, "b"]], [[r // 2, "i"]], [[0, "t"], [r, "i"]], many):
                                for after in ([], ["P"], ["O"]):
                                    yield dict(d=d, c=c, r=r, engine=engine, sign=sign, noise=noise, after=after)
                        if sign == "pos" and r <= 4:
                            # no WRAP line in ~Version, or no ~Version section at all: the file is not wrapped
                            yield dict(d=d, c=c, r=r, engine=engine, sign=sign, version_section="no-wrap-item")
                            yield dict(d=d, c=c, r=r, engine=engine, sign=sign, version_section="absent")
                            if d >= 2:
                                yield dict(d=d, c=c, r=r, engine=engine, sign=sign, names="numeric")
                            if r <= 3:
                                yield dict(d=d, c=c, r=r, engine=engine, sign=sign, index="text")
                    for how in ("list", "dict"):
                        yield dict(d=d, c=c, r=r, engine=engine, sign="pos", dtypes=how)
                    for policy in ("all", "numbers-only"):
                        yield dict(d=d, c=c, r=r, engine=engine, sign="pos", null_policy=policy, noise=[[r // 2, "w"]])
                    for ch in ("%", ";"):
                        yield dict(d=d, c=c, r=r, engine=engine, sign="pos", comment_char=ch, noise=[[r // 2, "w"], [0, "c"]])
                    for z in (True, "line", "blank"):
                        yield dict(d=d, c=c, r=r, engine=engine, sign="pos", ctrlz=z)
                        yield dict(d=d, c=c, r=r, engine=engine, sign="pos", ctrlz=z, final_nl=False)
                    if c >= 2:
                        yield dict(d=d, c=c, r=r, engine=engine, sign="pos", dlm="COMMA", empty_col=(d + r))
                    if c >= 3:
                        yield dict(d=d, c=c, r=r, engine=engine, sign="pos", quoted=True)
                    if c >= 2 and r >= 2:
                        yield dict(d=d, c=c, r=r, engine=engine, sign="pos", dates=(d + r))
                        # ... and a blank line among them: a blank line is no data line, it says nothing about hyphens
                        for pos in (0, r // 2, r):
                            yield dict(d=d, c=c, r=r, engine=engine, sign="pos", dates=(d + r), noise=[[pos, "b"]])
                    if c >= 2:
                        yield dict(d=d, c=c, r=r, engine=engine, sign="mixed", runon=True)
                        yield dict(d=d, c=c, r=r, engine=engine, sign="neg", runon=True)


def wrapped_grid(tier):
    cmax, rmax = (9, 3) if tier == "quick" else (24, 4)
    # one declared curve (an index alone): every value is a depth step of its own, however many stand on a line
    for k in (2, 3, 5):
        for r in (k, 2 * k, 3 * k):
            for engine in ("numpy", "normal"):
                yield dict(d=1, c=1, r=r, engine=engine, wrap=1, pack=k, sign="pos")
    for c in range(1, cmax + 1):
        for p in range(1, c + 1):
            for r in range(1, rmax + 1):
                for alone in (False, True):
                    if alone and c == 1:
                        continue
                    for sign in ("pos", "mixed"):
                        yield dict(d=c, c=c, r=r, engine="numpy", wrap=p, index_alone=alone, sign=sign)


@st.composite
def big_cases(draw):
    wrapped = draw(st.booleans())
    c = draw(st.integers(1, 40))
    r = draw(st.integers(1, 60))
    case = dict(c=c, r=r, engine=draw(st.sampled_from(["numpy", "normal"])),
                sign=draw(st.sampled_from(["pos", "neg", "mixed"])),
                nl=draw(st.sampled_from(["\n", "\r\n"])), final_nl=draw(st.booleans()))
    if wrapped:
        case["d"] = c
        # favour per-line counts that divide c (the sniffer then sees a constant count)
        divs = [p for p in range(1, c + 1) if c % p == 0]
        case["wrap"] = draw(st.one_of(st.sampled_from(divs), st.integers(1, c)))
        case["index_alone"] = draw(st.booleans()) and c > 1
    else:
        case["d"] = draw(st.one_of(st.just(c), st.integers(0, 45)))
        case["dlm"] = draw(st.sampled_from([None, None, "COMMA", "TAB"]))
        if case["dlm"] is None:
            case["version_section"] = draw(st.sampled_from([None, None, None, "no-wrap-item", "absent"]))
        case["names"] = draw(st.sampled_from([None, None, None, "numeric"]))
        if draw(st.integers(0, 5)) == 0:
            case["index"] = "text"
    from vlib import strategies as S_
    case["scaffold"] = draw(S_.scaffold())
    nlines = r if not wrapped else r * (c // case["wrap"] + 2)
    case["noise"] = draw(st.lists(st.tuples(st.one_of(st.integers(0, nlines), st.just(nlines)), st.sampled_from("bcit")), max_size=3))
    if draw(st.integers(0, 7)) == 0:
        # more comment / blank lines before the first data row than any sample of lines a sniffer may take
        case["noise"] += [[0, draw(st.sampled_from("bcit"))] for _ in range(draw(st.integers(19, 30)))]
    case["mnemonic_case"] = draw(st.sampled_from(["upper", "upper", "lower", "preserve"]))
    case["after"] = draw(st.sampled_from([[], [], ["P"], ["O"], ["P", "O"]]))
    return case


def parts(tier):
    return [
        Enum("grid(d,c,r,engine,sign)", grid),
        Enum("wrapped-grid(c,per-line,r,index-alone)", wrapped_grid),
        Hyp("large-shapes", big_cases, quick=3000, thorough=20000),
    ]
