"""C01 - numeric curve data survives write -> read within the printed precision."""
import math
from fractions import Fraction

import numpy as np
from hypothesis import strategies as st

from vlib import build
from vlib.api import Enum, Hyp, Outcome, attempt, fdec, fenc, is_raised
from vlib.filecheck import read_text

ID = "C01"
LEVEL = "exploration"
RULE = ("case = LASFile with 1..40 float curves (counts drawn as k*per_line + {-1,0,1}, per_line = fields that fit "
        "the chosen data_width) x 1..6 rows (1..40 thorough), samples from a mixture (full-range floats, small "
        "integers, values at half-unit rounding boundaries of the format, denormals, 1e+-300), NaN at non-index "
        "positions; options = version {1.2,2} x wrap x fmt %[flags][width][.prec]{f,F,e,E,g,G} x column_fmt x "
        "len_numeric_field {None,-1,narrow,exact,wide} x spacer x lhs_spacer x data_width x mnemonics_header x "
        "data_section_header; curve names plain, numeric ('1','2',...) or those of the steering items (NULL, WRAP, DLM, "
        "VERS); the object's DLM item SPACE (default) or COMMA/TAB as after reading such a file; the object is built from scratch or (one case in six) is what lasio read from a lossless first write with mnemonic_case lower/upper/preserve; re-read (one case in six with mnemonic_case='lower'/'preserve') with engine "
        "numpy and normal. Oracle: same curve count/order/mnemonics/rows; "
        "finite cell |x'-x| <= 1/2 unit of the last printed digit of (fmt % x) + 2 ulp (exact rational arithmetic); "
        "NaN off the index -> NaN; index never NaN. Non-trivial: wrapped with > 1 physical line per step, or NaN "
        "present, or a field narrower than its token, or per-column formats.")
ASSUMPTIONS = [
    "re-reading with mnemonic_case='lower'/'preserve' goes beyond the letter of the statement ('either data engine'); it is "
    "judged only on outputs whose header mnemonics are upper-case, where the spelling option changes no steering item",
    "formats are rounding formats %[flags][width][.prec]{f,F,e,E,g,G}; spacer='' only with a len_numeric_field larger "
    "than every token (documented precondition); any data_width, also one narrower than a value (former precondition, lifted "
    "with the repair of D48: a value is never split)",
    "a finite sample whose printed token equals the NULL value is replaced by construction (it must come back as NaN, C06)",
]


def token_unit(tok):
    """Value of one unit of the last printed digit of a decimal token, as a Fraction."""
    t = tok.strip().lstrip("+-").lower()
    exp = 0
    if "e" in t:
        t, e = t.split("e")
        exp = int(e)
    dec = len(t.split(".")[1]) if "." in t else 0
    return Fraction(10) ** (exp - dec)


def ulp(x):
    return Fraction(math.ulp(x)) if x != 0 else Fraction(math.ulp(0.0))


def fmt_of(case, j):
    cf = case["opts"].get("column_fmt") or {}
    return cf.get(str(j), case["opts"].get("fmt", "%.5f"))


def oracle(case):
    out = Outcome()
    opts = dict(case["opts"])
    if isinstance(opts.get("wrap"), str):
        opts["wrap"] = np.bool_(opts["wrap"] == "np.True")  # wrap given as a numpy boolean (the result of a comparison)
    cols = case["cols"]
    c, r = len(cols), len(cols[0])
    cf = opts.pop("column_fmt", None)
    if cf:
        opts["column_fmt"] = {int(k): v for k, v in cf.items()}
    names = ["C%d" % j for j in range(c)]
    if case.get("names") == "numeric" and c >= 2:
        # numbered channels named after ANOTHER position: the binding of samples to curves must not follow the name
        names = ["DEPT"] + [str(c - j) for j in range(1, c)]
    if case.get("names") == "steering" and c >= 2:
        # curves named like the items that steer parsing: only ~Version/~Well items may steer
        names = ["DEPT"] + [("NULL", "WRAP", "DLM", "VERS")[j - 1] if j <= 4 else "C%d" % j for j in range(1, c)]
    units = [""] * c
    if case.get("units") == "dotted":
        # units that begin with a period (.1IN) next to mnemonics of different lengths: TDEP ..1IN must not come back as TDEP.
        units = [".1IN" if j % 2 == 0 else "ohm.m" for j in range(c)]
    desc = {"curves": [[names[j], units[j], "", "", col] for j, col in enumerate(cols)]}
    if case.get("null"):
        desc["null"] = case["null"]  # any NULL marker must carry the NaNs through the file
    las = build.build_las(desc)
    if case.get("via_read"):
        # the object of a FILE: the same curves written once without loss (%.17g) and read with the given mnemonic_case;
        # such an object has sections that compare mnemonics without regard to case and, with 'lower', lower-case items
        t1 = attempt(build.write_text, las, fmt="%.17g")
        las1 = None if is_raised(t1) else read_text(t1, engine="normal", mnemonic_case=case["via_read"])
        same = las1 is not None and not is_raised(las1) and len(las1.curves) == c and all(
            len(cv.data) == r and all((math.isnan(fdec(x)) and math.isnan(float(y))) or fdec(x) == float(y) for x, y in zip(col, cv.data))
            for col, cv in zip(cols, las1.curves))
        if not same:
            out.rejected = True  # the lossless first generation is not this case's subject (it is a default-option case)
            out.cls("via-read-first-generation-differs")
            return out
        las = las1
        out.cls("object-from-read|mnemonic_case=" + case["via_read"])
    if case.get("wrap_item") is not None:
        # wrap= left to lasio (None): whatever the object's own WRAP item says and however it spells it, header and
        # data section of the output must agree about the layout
        las.version["WRAP"].value = case["wrap_item"]
        opts.pop("wrap", None)
        out.cls("wrap-left-to-lasio|WRAP=%s" % case["wrap_item"])
    if case.get("dlm"):
        # the object of a file that was comma- or tab-delimited: write() emits blanks and must say so in every version
        las.version["DLM"].value = case["dlm"]
        out.cls("dlm-item-" + case["dlm"])
    if case.get("names"):
        out.cls("names-" + case["names"])
    if case.get("fmt_first"):
        # a previous write with another fmt and the SAME column_fmt dict object: write() must not keep state in it
        first = dict(opts, fmt=case["fmt_first"])
        t0 = attempt(build.write_text, las, **first)
        if is_raised(t0):
            out.fail("write-raises|" + t0.bucket, "%s\nopts=%r" % (t0, first))
            return out
        out.cls("second-write-same-column_fmt-dict")
    text = attempt(build.write_text, las, **opts)
    wrap = bool(opts.get("wrap"))
    feats = []
    if cf:
        feats.append("column_fmt")
    if any(x == "nan" for col in cols for x in col):
        feats.append("nan")
    out.cls("wrap" if wrap else "nowrap", "v%s" % opts.get("version"), "lnf=%s" % case.get("lnf_kind"))
    out.sample = dict(opts=case["opts"], shape=[r, c], first_row=[col[0] for col in cols][:6])
    if is_raised(text):
        out.fail("write-raises|" + text.bucket, "%s\nopts=%r" % (text, case["opts"]))
        return out
    lines = text.split("\n")
    a0 = max(i for i, ln in enumerate(lines) if ln[:2].upper() == "~A")
    nphys = len([ln for ln in lines[a0 + 1:] if ln.strip()])
    if wrap and nphys > r:
        feats.append("multi-line-steps")
    if case.get("lnf_kind") == "narrow":
        feats.append("narrow-field")
    out.cls(*feats)
    out.nontrivial = bool(feats)
    # the NULL marker in the written text: NaN cells are emitted as the NULL value
    toks = " ".join(lines[a0 + 1:]).split()
    nullv = float(las.well["NULL"].value)
    if len(toks) == c * r:
        for j in range(c):
            for i in range(r):
                if cols[j][i] == "nan":
                    try:
                        ok = float(toks[i * c + j]) == nullv
                    except ValueError:
                        ok = False
                    if not ok:
                        out.fail("nan-not-written-as-null", "NaN cell (%d,%d) written as %r (NULL %r)\nopts=%r" % (i, j, toks[i * c + j], nullv, case["opts"]))
    elif opts.get("spacer", " ") != "":
        out.fail("written-token-count", "expected %d data tokens in the text, found %d\nopts=%r\n%s" % (c * r, len(toks), case["opts"], text[-800:]))
    for engine in case.get("engines", ["numpy", "normal"]):
        rkw = {}
        if case.get("read_case"):
            rkw["mnemonic_case"] = case["read_case"]  # how the reader spells mnemonics changes no sample
            out.cls("reread-mnemonic_case-" + case["read_case"])
        back = read_text(text, engine=engine, **rkw)
        tag = "%s|%s" % ("wrap" if wrap else "nowrap", engine)
        if is_raised(back):
            out.fail("reread-raises|%s|%s" % (back.bucket, tag), "%s\nopts=%r\n%s" % (back, case["opts"], text[-1500:]))
            continue
        keys = back.keys()
        if case.get("read_case") or case.get("via_read"):
            if len(keys) != len(names):
                out.fail("curves-differ|" + tag, "expected %d curves, got %r\nopts=%r\n%s" % (len(names), keys[:8], case["opts"], text[-1500:]))
                continue
        elif keys != names or [cv.original_mnemonic for cv in back.curves] != keys:
            out.fail("curves-differ|" + tag, "expected curves %r, got %r\nopts=%r\n%s" % (names[:8], keys[:8], case["opts"], text[-1500:]))
            continue
        if any(len(cv.data) != r for cv in back.curves):
            out.fail("rows-differ|" + tag, "expected %d rows, got %r\nopts=%r\n%s" % (r, [len(cv.data) for cv in back.curves][:8], case["opts"], text[-1500:]))
            continue
        by_position = list(back.curves)  # iteration is positional; indexing by int goes through the mnemonic lookup
        for j in range(c):
            fmt = fmt_of(case, j)
            data = by_position[j].data
            for i in range(r):
                x = fdec(cols[j][i])
                try:
                    y = float(data[i])
                except (TypeError, ValueError):
                    out.fail("cell-not-float|" + tag, "cell (%d,%d) read as %r" % (i, j, data[i]))
                    break
                if math.isnan(x):
                    if not math.isnan(y):
                        out.fail("nan-lost|" + tag, "NaN cell (%d,%d) came back as %r\nopts=%r" % (i, j, y, case["opts"]))
                    continue
                if math.isnan(y):
                    out.fail("nan-gained|%s|%s" % ("index" if j == 0 else "other", tag),
                             "cell (%d,%d)=%r (token %r) came back as NaN\nopts=%r" % (i, j, x, fmt % x, case["opts"]))
                    continue
                tok = fmt % x
                if math.isinf(float(tok)):
                    continue  # the format itself prints a value beyond the double range
                if math.isinf(y):
                    out.fail("precision|" + tag, "cell (%d,%d)=%r printed as %r came back as %r" % (i, j, x, tok, y))
                    break
                tol = token_unit(tok) / 2 + 2 * ulp(y)
                if math.isinf(y) or abs(Fraction(y) - Fraction(x)) > tol:
                    out.fail("precision|" + tag, "cell (%d,%d)=%r printed as %r came back as %r (tolerance %s)\nopts=%r"
                             % (i, j, x, tok, y, float(tol), case["opts"]))
                    break
    return out


FLAGS = st.sampled_from(["", "", "", "+", " ", "0", "-", "#"])
CONV = st.sampled_from(["f", "f", "f", "F", "e", "E", "g", "G"])


@st.composite
def fmts(draw):
    prec = draw(st.sampled_from(["", ".0", ".1", ".2", ".3", ".5", ".5", ".8", ".12", ".17"]))
    width = draw(st.sampled_from(["", "", "", "6", "10", "14"]))
    return "%" + draw(FLAGS) + width + prec + draw(CONV)


def boundary(fmt):
    """A value at a half-unit rounding boundary of the format (for f-type formats)."""
    p = 6
    if "." in fmt:
        digits = "".join(ch for ch in fmt.split(".")[1] if ch.isdigit())
        p = int(digits or 0)
    return st.integers(-10 ** 6, 10 ** 6).map(lambda n: (n + 0.5) / (10.0 ** min(p, 12)))


@st.composite
def cases(draw, max_rows=6):
    fmt = draw(st.one_of(st.just("%.5f"), fmts()))
    version = draw(st.sampled_from([1.2, 2]))
    wrap = draw(st.booleans())
    spacer = draw(st.sampled_from([" ", " ", "  ", "\t", " \t", ""]))
    lhs = draw(st.sampled_from([" ", " ", "", "   ", "\t"]))
    r = draw(st.integers(1, max_rows))
    nullspec = draw(st.sampled_from([None, None, None, None, None, ["f", "1e+30"], ["f", "-1e+20"], ["i", -999], ["f", "-999.25"], ["i", 2147483647], ["i", 0], ["f", "0.0"]]))
    nullv = -9999.25 if nullspec is None else float(build.val(nullspec))
    full = draw(st.booleans())

    def sample(f):
        k = draw(st.integers(0, 9))
        if k <= 2:
            x = float(draw(st.integers(-1000, 1000)))
        elif k <= 4:
            x = draw(st.floats(-1e6, 1e6, allow_nan=False))
        elif k == 5:
            x = draw(boundary(f))
        elif k == 8:
            # close to NULL but not NULL: must come back as the number it is
            x = nullv + draw(st.sampled_from([0.001, -0.001, 0.004, -0.004, 0.009, -0.009, 0.05, -0.05, 1e-5, -1e-5, 0.09]))
        elif k == 6 and full:
            x = draw(st.floats(allow_nan=False, allow_infinity=False))
        elif k == 7 and full:
            x = draw(st.sampled_from([5e-324, 2.2250738585072014e-308, 1e300, -1e300, 1e-300, 1.7976931348623157e308, 123456789.123456789]))
        else:
            x = draw(st.floats(-100, 100, allow_nan=False, width=32))
        try:
            if float(f % x) == nullv or math.isinf(float(f % x)):
                x = 1.0  # prints as NULL, or prints beyond the double range ('2e+308')
        except ValueError:
            pass
        return x

    # column formats
    lnf_kind = draw(st.sampled_from(["none", "none", "minus1", "narrow", "exact", "wide"]))
    # first decide a provisional number of curves to size things
    c0 = draw(st.integers(1, 8))
    col_fmt = {}
    if draw(st.integers(0, 2)) == 0:
        for j in draw(st.lists(st.integers(0, 39), min_size=1, max_size=3, unique=True)):
            col_fmt[str(j)] = draw(fmts())

    def f_of(j):
        return col_fmt.get(str(j), fmt)

    probe = [sample(f_of(j)) for j in range(4)]
    tok_len = max(len(f_of(j) % x) for j, x in enumerate(probe))
    if lnf_kind == "none":
        lnf = None
        field = max(10, tok_len)
    elif lnf_kind == "minus1":
        lnf = -1
        field = tok_len
    elif lnf_kind == "narrow":
        lnf = max(1, tok_len - 2)
        field = tok_len
    elif lnf_kind == "exact":
        lnf = tok_len + 1
        field = lnf
    else:
        lnf = tok_len + draw(st.integers(2, 8))
        field = lnf
    per_line_width = field + max(1, len(spacer))
    data_width = draw(st.sampled_from([79, 79, 40, 60, 120, 200]))
    per_line = max(1, data_width // per_line_width)
    k = draw(st.integers(1, 4))
    c = max(1, min(40, k * per_line + draw(st.sampled_from([-1, 0, 0, 0, 1]))))
    if draw(st.integers(0, 3)) == 0:
        c = draw(st.integers(1, 40))
    cols = []
    for j in range(c):
        col = []
        for i in range(r):
            if j == 0:
                if draw(st.integers(0, 9)) == 0:
                    col.append(fenc(nullv))  # index samples equal to NULL are kept
                else:
                    col.append(fenc(sample(f_of(0)) if full else float(i) * 0.5 + 100))
            elif draw(st.integers(0, 7)) == 0:
                col.append("nan")
            else:
                col.append(fenc(sample(f_of(j))))
        cols.append(col)
    # preconditions: token widths
    longest = len(str(-9999.25 if nullspec is None else build.val(nullspec)))
    for j, col in enumerate(cols):
        for cell in col:
            if cell != "nan":
                longest = max(longest, len(f_of(j) % fdec(cell)))
    if spacer == "":
        if lnf is None or lnf <= longest:
            lnf = longest + 1
            lnf_kind = "exact"
    eff_field = longest if lnf in (None, -1) else max(lnf, longest)
    if lnf is None:
        eff_field = max(eff_field, 10, len(fmt % math.pi) + 1)
    need = eff_field + max(len(spacer), len(lhs)) * 8 + 1
    narrow_ok = "\t" not in spacer + lhs and draw(st.integers(0, 7)) == 0
    if wrap and data_width < need and not narrow_ok:
        data_width = need
    elif wrap and narrow_ok:
        # narrower than a value: a value is never split, it simply gets a line of its own
        data_width = draw(st.integers(1, max(1, longest)))
    if wrap and "\t" not in spacer + lhs and draw(st.integers(0, 5)) == 0:
        # boundary of the documented precondition: the widest token just fits on a line of its own
        data_width = max(longest, 1)
    opts = dict(version=version, wrap=wrap, fmt=fmt, len_numeric_field=lnf, spacer=spacer, lhs_spacer=lhs,
                data_width=data_width, mnemonics_header=draw(st.booleans()),
                data_section_header=draw(st.sampled_from(["~ASCII", "~A", "~A log data", "~a", "~ascii log data", "~Ascii"])))
    col_fmt = {k_: v for k_, v in col_fmt.items() if int(k_) < c}
    if col_fmt:
        opts["column_fmt"] = col_fmt
    case = dict(cols=cols, opts=opts, lnf_kind=lnf_kind)
    k = draw(st.integers(0, 9))
    if k < 2:
        case["names"] = "numeric"
    elif k < 4:
        case["names"] = "steering"
    if draw(st.integers(0, 5)) == 0:
        case["dlm"] = draw(st.sampled_from(["COMMA", "TAB"]))
    if draw(st.integers(0, 5)) == 0:
        case["units"] = "dotted"
    if draw(st.integers(0, 7)) == 0:
        case["wrap_item"] = draw(st.sampled_from(["YES", "Yes", "yes", "NO", "No"]))
    elif draw(st.integers(0, 7)) == 0:
        case["opts"]["wrap"] = "np.True" if case["opts"]["wrap"] else "np.False"
    if nullspec is not None:
        case["null"] = nullspec
    if draw(st.integers(0, 5)) == 0:
        case["read_case"] = draw(st.sampled_from(["lower", "preserve"]))
    if draw(st.integers(0, 5)) == 0:
        case["via_read"] = draw(st.sampled_from(["lower", "lower", "upper", "preserve"]))
        if case["via_read"] == "lower":
            # lower-case header items in the output: finding `null` under mnemonic_case='preserve' is not something the
            # statement promises; such outputs are re-read with the default options only
            case.pop("read_case", None)
    if col_fmt and draw(st.booleans()):
        case["fmt_first"] = draw(st.sampled_from(["%.1f", "%.2f", "%.0f"]))
    return case


def wrap_multiples(tier):
    """Default options, wrapped: every curve count 1..40 (so every multiple of the per-line field count) x rows 1..3."""
    for c in range(1, 41):
        for r in (1, 2, 3):
            for version in (1.2, 2):
                cols = [[fenc(100.0 + i * 0.5 + j * 1000) if (j == 0 or (i + j) % 5) else "nan" for i in range(r)] for j in range(c)]
                yield dict(cols=cols, opts=dict(version=version, wrap=True), lnf_kind="none")


def parts(tier):
    return [
        Enum("wrapped-default-options-every-curve-count", wrap_multiples),
        Hyp("generated", cases, quick=6000, thorough=120000),
        Hyp("generated-long", lambda: cases(max_rows=40), quick=300, thorough=20000),
    ]
