"""C20 - every file lasio opens is closed again, whatever fails and wherever (fault enumeration)."""
import io
import os
import pathlib
import random
import shutil
import tempfile

import numpy as np

from vlib import canon, faultio, lastext
from vlib.api import Custom, HarnessError, Outcome, innermost_site

ID = "C20"
LEVEL = "fault_enumeration"
RULE = ("case = (call kind, input, fault point). Call kinds: read(str path), read(pathlib.Path), write(path), "
        "to_csv(path), write/to_csv(path given as bytes), write(file object), to_csv(file object) (text streams with every fault "
        "point; BINARY streams of the caller's - BytesIO, open(wb), unbuffered - tracked without proxy, no faults). Inputs: LAS files rendered from a FileSpec family "
        "(curves x rows x wrapped x UTF-8 BOM x non-ASCII content x autodetect_encoding True/False/'chardet' x "
        "explicit encoding, normal/numpy engine, ~Other section, hyphen data, text column) plus seeded variations, and "
        "the failing classes: no '~' section, 'LASF' magic, junk header line, ragged data rows, undecodable bytes with "
        "encoding_errors='strict' (in the first decoded chunk and beyond it), empty file, missing path, directory; "
        "LASFile objects that cannot be written (no STOP/STRT/NULL/VERS item, text index curve, mnemonic None, no "
        "curves, bad fmt, version=3.0, unknown keyword) or exported (ragged curves, no curves, unit None with "
        "units_loc='[]', bad csv dialect arguments, field that needs escaping). For every (call, input) a clean run "
        "under the open()/io.open() tracker measures N = number of low-level operations (read/readline/readlines/"
        "next/seek/tell/write/writelines/flush over all files opened during the call, helper opens for BOM / chardet / "
        "ad-hoc sniffing included) and M = number of open() calls; then EVERY k in 1..N is run with OSError injected "
        "at the k-th operation and every j in 1..M with OSError injected at the j-th open(). Two-call histories: the call "
        "(clean, failing by itself, at k in {1, N/2, N} and at every open) followed by write()/to_csv() of the SAME "
        "LASFile to a StringIO of the caller's, which must stay open. Oracle: with the raised "
        "exception (and its frames) still alive and without gc, every file object lasio opened has closed == True, "
        "caller-supplied objects are still open, no attribute of the LASFile is an open file. Non-trivial: a fault "
        "was injected and reached, or the input makes lasio raise by itself.")
ASSUMPTIONS = [
    "files are opened through builtins.open / io.open (also via pathlib.Path.open / codecs.open) by a function of the "
    "lasio package; a handle obtained through os.open or a C extension would be invisible (lasio has no such call "
    "site: grep 'open(' lasio/*.py)",
    "files opened by third-party code (numpy, chardet, linecache) during the call are not lasio's and are not judged",
    "close() itself never fails; faults inside the operating system after close() are not modelled",
    "the file proxy is transparent: self-test on every input compares result / exception with and without the proxy "
    "and with no patching at all (harness error if they differ)",
    "read(file object) is outside the property (lasio closes the object it is given; the statement speaks about "
    "write() and to_csv() for caller-supplied objects)",
]

# temporary directories: memory-backed when possible (the enumeration creates one per (call, input) and one per replayed
# case; on a disk-backed /tmp that alone costs several ms each and serialises the worker processes)
TMPBASE = "/dev/shm" if (os.path.isdir("/dev/shm") and os.access("/dev/shm", os.W_OK | os.X_OK)) else None


def mkdtemp(prefix):
    return tempfile.mkdtemp(prefix=prefix, dir=TMPBASE)


CALLS = ("read_str", "read_path", "write_path", "to_csv_path", "write_fileobj", "to_csv_fileobj",
         "write_bytes_path", "to_csv_bytes_path")  # *_bytes_path: the file name given as bytes (basestring = (str, bytes))
CAP = {"quick": 450, "thorough": 4000}  # largest N enumerated completely; inputs are built to stay below


# ------------------------------------------------------------------------------------------
# inputs


def gen_text(p):
    """Valid LAS text from the parameter dict of a generated input."""
    c, r = p["curves"], p["rows"]
    curves = [("DEPT", "M", "", "depth")] + [("C%d" % j, "u%d" % j, "", "curve %d" % j) for j in range(1, c)]
    rows = []
    for i in range(r):
        toks = ["%d.%03d" % (i + 1, j) for j in range(c)]
        if p.get("hyphen"):
            toks = ["-" + t for t in toks]
        if p.get("textcol") and c > 1:
            toks[-1] = "txt%d" % i
        if p.get("wrap") == "YES":
            rows.append(toks[:1])
            for a in range(1, c, 3):
                rows.append(toks[a:a + 3])
        else:
            rows.append(toks)
    well = [("WELL", "", "W\u00e9ll \u00b0 \u00b5 n\u00ba 1" if p.get("nonascii") else "Well no 1", "well name")]
    spec = lastext.simple_spec(curves, rows, wrap=p.get("wrap", "NO"), well=well,
                               other=["first note", "second note"] if p.get("other") else None,
                               nl=p.get("nl", "\n"))
    return lastext.render(spec)


BASE = dict(name="gen", curves=3, rows=3, wrap="NO")


def input_bytes(inp):
    """bytes of the file for a read input, or None (no file) / "dir" (a directory)."""
    name = inp["name"]
    if name == "gen":
        data = gen_text(inp).encode(inp.get("enc", "utf-8"))
        return (b"\xef\xbb\xbf" + data) if inp.get("bom") else data
    text = gen_text(dict(BASE, **{k: v for k, v in inp.items() if k != "name"}))
    if name == "no-sections":
        return b"just some text\nwithout any section\n1 2 3\n"
    if name == "lasf":
        return b"LASF\x00\x01\x02\x03 lidar\n" + text.encode()
    if name == "header-error":
        return text.replace("STEP.M", "this line is junk without a period\nSTEP.M").encode()
    if name == "ragged":
        lines = text.split("\n")
        assert lines[-1] == ""
        lines[-2] = lines[-2].rsplit(" ", 1)[0]
        return "\n".join(lines).encode()
    if name == "undecodable-early":
        return text.replace("depth", "de\udcffpth").encode("utf-8", "surrogateescape")
    if name == "undecodable-late":
        # beyond the first chunk TextIOWrapper decodes (8192 bytes): the error surfaces in the middle of the reading
        filler = "\n".join("# " + "x" * 2990 for _ in range(3))
        t = text.replace("~Curves", filler + "\n~Curves")
        lines = t.split("\n")
        lines[-2] = lines[-2][:-1] + "\udcff"
        return "\n".join(lines).encode("utf-8", "surrogateescape")
    if name == "empty":
        return b""
    if name == "missing":
        return None
    if name == "directory":
        return "dir"
    raise HarnessError("unknown read input %r" % (inp,))


def mut_no(item, section="well"):
    def f(las):
        del getattr(las, section)[item]
    return f


def _text_index(las):
    las.curves[0].data = np.array(["row%d" % i for i in range(len(las.curves[0].data))])


def _ragged(las):
    las.curves[-1].data = las.curves[-1].data[:-1]


def _no_curves(las):
    for m in list(las.keys()):
        las.delete_curve(m)


def _mnem_none(las):
    las.curves[-1].original_mnemonic = None


def _unit_none(las):
    las.curves[-1].unit = None


def _unit_comma(las):
    las.curves[-1].unit = "a,b"


def _nan_no_null(las):
    las.curves[-1].data[0] = np.nan
    del las.well["NULL"]


MUTATIONS = {
    "valid": lambda las: None,
    "no-STOP": mut_no("STOP"),
    "no-STRT": mut_no("STRT"),
    "no-NULL": mut_no("NULL"),
    "nan-no-NULL": _nan_no_null,
    "no-VERS": mut_no("VERS", "version"),
    "text-index": _text_index,
    "ragged-curves": _ragged,
    "no-curves": _no_curves,
    "mnemonic-None": _mnem_none,
    "unit-None": _unit_none,
    "unit-comma": _unit_comma,
}


def json_kw(kw):
    """JSON spelling of keyword arguments -> real keyword arguments."""
    out = {}
    for k, v in (kw or {}).items():
        if k == "version":
            v = float(v)
        out[k] = v
    return out


# ------------------------------------------------------------------------------------------
# running one case


class Prepared(object):
    def __init__(self):
        self.las = None
        self.invoke = None  # invoke(tracker or None)
        self.caller_real = None
        self.outpath = None
        self.is_read = False


def prepare(case, d):
    """Everything that happens before the tracked region (the caller's own work)."""
    import lasio

    call, inp = case["call"], case["input"]
    kw = json_kw(case.get("kw"))
    pr = Prepared()
    if call in ("read_str", "read_path"):
        pr.is_read = True
        path = os.path.join(d, "input.las")
        if not os.path.lexists(path):  # a working directory reused for all fault points of one input
            data = input_bytes(inp)
            if data == "dir":
                os.mkdir(path)
            elif data is not None:
                with open(path, "wb") as f:
                    f.write(data)
        ref = pathlib.Path(path) if call == "read_path" else path
        pr.las = lasio.LASFile()
        pr.invoke = lambda tr: pr.las.read(ref, **kw)
        return pr
    text = gen_text(dict(BASE, **{k: v for k, v in inp.items() if k not in ("name", "mut")}))
    las = lasio.read(io.StringIO(text), engine="normal")
    MUTATIONS[inp.get("mut", "valid")](las)
    pr.las = las
    meth = las.write if call.startswith("write") else las.to_csv
    if call.endswith("_path"):
        pr.outpath = os.path.join(d, "out.txt")
        target = os.fsencode(pr.outpath) if "bytes" in call else pr.outpath
        pr.invoke = lambda tr: meth(target, **kw)
        return pr
    sink = case.get("sink", "file")
    if sink == "file":
        pr.outpath = os.path.join(d, "out.txt")
        pr.caller_real = open(pr.outpath, "w")
    elif sink in ("binfile", "rawfile"):
        # a stream of the caller's that cannot take text: whatever lasio makes of it, it is the caller's and stays open
        pr.outpath = os.path.join(d, "out.bin")
        pr.caller_real = open(pr.outpath, "wb") if sink == "binfile" else open(pr.outpath, "wb", buffering=0)
    elif sink == "bytesio":
        pr.caller_real = io.BytesIO()
    else:
        pr.caller_real = io.StringIO()

    def invoke(tr):
        f = tr.wrap_external(pr.caller_real) if tr is not None else pr.caller_real
        return meth(f, **kw)

    pr.invoke = invoke
    return pr


def result_signature(pr, exc, d):
    """What the caller can observe of the call, for the transparency self-test."""
    if exc is not None:
        return ("raised", type(exc).__name__, str(exc).replace(d, "<tmp>")[:300])
    if pr.is_read:
        return ("read", canon.from_las(pr.las), pr.las.encoding)
    if isinstance(pr.caller_real, (io.StringIO, io.BytesIO)):
        if pr.caller_real.closed:  # a violation reported by the oracle; the content is gone with it
            return ("written", "<caller's StringIO closed>")
        return ("written", pr.caller_real.getvalue())
    if pr.caller_real is not None and not pr.caller_real.closed:
        pr.caller_real.flush()
    with open(pr.outpath, "rb") as f:
        return ("written", f.read())


def same_signature(a, b):
    if a[0] != b[0]:
        return False
    if a[0] == "read":
        return not canon.diff(a[1], b[1], names=("a", "b")) and a[2] == b[2]
    return a == b


def input_tag(case):
    """What makes the input fail: the input class / object mutation, or the keyword arguments for a valid input."""
    inp = case["input"]
    tag = inp.get("mut") or inp["name"]
    if tag in ("valid", "gen") and case.get("kwtag"):
        tag = case["kwtag"]
    return tag


def exc_label(exc, tr, case):
    if exc is None:
        return "clean" if tr.fired is None else "returned-after-injected"
    n = type(exc).__name__
    if faultio.is_injected(exc):
        return "OSError-injected"
    if tr.fired is not None:
        return n + "-after-injected"
    return "%s-%s" % (n, input_tag(case))


def evaluate(case, mode="proxy", workdir=None):
    """-> (Outcome, info).  mode: 'proxy' (normal), 'track' (tracking without proxy).  workdir: an existing temporary
    directory reused by the enumeration for all fault points of one (call, input); None: own directory, removed."""
    out, info = Outcome(), {}
    d = workdir or mkdtemp("c20-")
    try:
        _evaluate(case, d, out, info, mode)
    finally:
        if workdir is None:
            shutil.rmtree(d, ignore_errors=True)
    return out, info


def oracle(case):
    return evaluate(case)[0]


def _evaluate(case, d, out, info, mode):
    call = case["call"]
    if call not in CALLS:
        raise HarnessError("unknown call kind %r" % (call,))
    pr = prepare(case, d)
    tr = faultio.Tracker(k=case.get("k"), kopen=case.get("kopen"), proxy=(mode == "proxy"))
    exc = None
    with tr:
        try:
            pr.invoke(tr)
        except (KeyboardInterrupt, SystemExit, MemoryError):
            tr.cleanup()
            raise
        except BaseException as e:  # noqa - kept alive (with its traceback frames) until the verdict is taken
            exc = e
        exc2 = None
        if case.get("then"):
            # history: the SAME LASFile is next asked to write to a stream of the caller's; whatever the first call
            # did, that stream is the caller's and stays open, and nothing new is left open
            follow = tr.wrap_external(io.StringIO(), label="follow-up-object")
            try:
                getattr(pr.las, case["then"])(follow)
            except (KeyboardInterrupt, SystemExit, MemoryError):
                tr.cleanup()
                raise
            except BaseException as e:  # noqa
                exc2 = e
            out.cls("then:" + case["then"], "then-outcome:" + ("returned" if exc2 is None else type(exc2).__name__))
    # ---- verdict: no gc.collect(), exc still referenced -------------------------------------
    label = exc_label(exc, tr, case)
    report = tr.report()
    leaked = tr.leaked()
    closed_callers = [r for r in tr.callers() if r.closed]
    held = []
    for name, v in sorted(vars(pr.las).items()):
        if faultio.is_file_like(v) and not v.closed:
            held.append(name)
    for name, v in sorted(pr.las.sections.items()):
        if faultio.is_file_like(v) and not v.closed:
            held.append("sections[%r]" % name)

    injected = case.get("k") is not None or case.get("kopen") is not None
    out.nontrivial = bool(tr.fired is not None or (exc is not None and not injected))
    out.rejected = exc is not None and tr.fired is None
    if exc is None:
        kind = "returned"
    elif faultio.is_injected(exc):
        kind = "injected-propagated"
    elif tr.fired is not None:
        kind = "other-exception-after-injected"
    else:
        kind = "input-induced-exception"
    out.cls("call:" + call, "exc:" + (type(exc).__name__ if exc is not None else "none"), "outcome:" + kind)
    if tr.fired is not None:
        out.cls("fault:%s@%s" % (tr.fired["op"], tr.fired["site"]))
        if exc is None:
            out.cls("fault-swallowed-by-lasio")
    elif injected:
        out.cls("fault-not-reached")
    if not injected:
        for r in tr.opened():
            out.cls("open-site:%s(%s)" % (r.site, r.mode))
    if tr.foreign:
        out.cls("foreign-open:" + tr.foreign[0][2])
    info.update(ops=tr.ops, opens=tr.opens, fired=tr.fired, label=label, report=report,
                tracked=len(tr.opened()), sig=None)

    def describe():
        lines = ["call %s, input %s, kw %r, fault %s" % (call, case["input"], case.get("kw"),
                                                         tr.fired or ("k=%r (not reached)" % case.get("k") if injected else "none")),
                 "raised: %s" % ("%s: %s @ %s" % (type(exc).__name__, str(exc)[:200], innermost_site(exc))
                                 if exc is not None else "nothing"),
                 "files opened by lasio during the call (path, mode, closed, opened in):"]
        lines += ["   %r" % (t,) for t in report]
        lines.append("operations performed: %d (%s%s)" % (tr.ops, " ".join(tr.oplog[:40]), " ..." if tr.ops > 40 else ""))
        return "\n".join(lines)

    for r in leaked:
        # root cause = the open() call site whose handle is not closed; the failing input is in the message
        out.fail("leak|%s|%s(%s)|%s" % (call, r.site, r.mode, "raised" if exc is not None else "returned"),
                 "file opened with mode %r in %s is still open after the call %s\n%s"
                 % (r.mode, r.site, "raised" if exc is not None else "returned", describe()))
    for r in closed_callers:
        if r.path == "follow-up-object":
            out.fail("caller-object-closed|%s-after-%s|%s" % (case["then"], call, "first-call-returned" if exc is None else "first-call-raised"),
                     "the stream given to %s() after the %s call was closed by lasio\n%s" % (case["then"], call, describe()))
            continue
        out.fail("caller-object-closed|%s|%s" % (call, "returned" if exc is None else "raised"),
                 "the caller's file object was closed by lasio\n%s" % describe())
    for name in held:
        out.fail("lasfile-holds-open-file|%s|%s|%s" % (call, name, "returned" if exc is None else "raised"),
                 "LASFile attribute %s is an open file after the call\n%s" % (name, describe()))
    # ---- after the verdict --------------------------------------------------------------------
    tr.cleanup()
    if not injected:
        try:
            info["sig"] = result_signature(pr, exc, d)
        except Exception as e:  # noqa
            info["sig"] = ("signature-failed", repr(e))
    if pr.caller_real is not None:
        pr.caller_real.close()
    out.sample = dict(case=case, ops=tr.ops, opens=tr.opens, outcome=label)
    exc = exc2 = None  # break the exception <-> frame cycle


def selftest(pair):
    """Transparency of the harness on one (call, input): no patching vs tracking vs tracking + counting proxy."""
    case = dict(pair, k=None)
    d = mkdtemp("c20-self-")
    try:
        pr = prepare(case, d)
        exc = None
        try:
            pr.invoke(None)
        except (KeyboardInterrupt, SystemExit, MemoryError):
            raise
        except BaseException as e:  # noqa
            exc = e
        bare = result_signature(pr, exc, d)
        del exc
        if pr.caller_real is not None:
            pr.caller_real.close()
    finally:
        shutil.rmtree(d, ignore_errors=True)
    for mode in ("track", "proxy"):
        _, info = evaluate(case, mode)
        if not same_signature(bare, info["sig"]):
            raise HarnessError("faultio is not transparent (%s) on %r:\n bare:  %.600r\n %s: %.600r"
                               % (mode, pair, bare, mode, info["sig"]))


# ------------------------------------------------------------------------------------------
# enumeration


def mk(call, inp, kw=None, kwtag=None, sink=None):
    p = dict(call=call, input=inp)
    if kw:
        p["kw"] = kw
    if kwtag:
        p["kwtag"] = kwtag
    if sink:
        p["sink"] = sink
    return p


def read_pairs(tier, seed):
    curves = (1, 2, 5) if tier == "quick" else (1, 2, 5, 9)
    rowss = (1, 3, 30) if tier == "quick" else (1, 3, 30, 120)
    pairs = []
    for call in ("read_path", "read_str"):
        for c in curves:
            for r in rowss:
                for wrap in ("NO", "YES"):
                    for bom in (0, 1):
                        for na in (0, 1):
                            for auto in (True, False):
                                # str and Path differ only before the first open(): for the long files of the
                                # quick tier each parameter combination gets one of the two call kinds
                                if tier == "quick" and r >= 30 and \
                                        (c + bom + na + int(auto) + (wrap == "YES")) % 2 != (call == "read_str"):
                                    continue
                                inp = dict(name="gen", curves=c, rows=r, wrap=wrap, bom=bom, nonascii=na)
                                pairs.append(mk(call, inp, dict(autodetect_encoding=auto)))
        small = dict(name="gen", curves=3, rows=4, wrap="NO")
        # encoding sniffing paths
        for na in (0, 1):
            for enc in ("utf-8", "latin-1"):
                for auto in ("chardet", True, False):
                    pairs.append(mk(call, dict(small, nonascii=na, enc=enc), dict(autodetect_encoding=auto)))
                pairs.append(mk(call, dict(small, nonascii=na, enc=enc), dict(encoding="latin-1"), "latin-1"))
                pairs.append(mk(call, dict(small, nonascii=na, enc=enc),
                                dict(autodetect_encoding=True, autodetect_encoding_chars=None), "chars-None"))
        pairs.append(mk(call, dict(small, nonascii=1, enc="latin-1"), dict(encoding="utf-8"), "utf-8-replace"))
        # reader paths
        for extra in (dict(other=1), dict(hyphen=1), dict(textcol=1), dict(other=1, hyphen=1, textcol=1), dict(nl="\r\n")):
            for engine in ("numpy", "normal"):
                pairs.append(mk(call, dict(small, **extra), dict(engine=engine), engine))
        pairs.append(mk(call, small, dict(ignore_data=True), "ignore_data"))
        pairs.append(mk(call, dict(small, wrap="YES"), dict(engine="numpy", use_normal_engine_for_wrapped=False), "numpy-wrapped"))
        pairs.append(mk(call, small, dict(null_policy="all"), "null-all"))
        # inputs that make lasio raise by itself
        for name in ("no-sections", "lasf", "header-error", "ragged", "empty", "missing", "directory"):
            for auto in (True, False):
                pairs.append(mk(call, dict(name=name), dict(autodetect_encoding=auto)))
        pairs.append(mk(call, dict(name="header-error"), dict(ignore_header_errors=True), "ignored"))
        pairs.append(mk(call, dict(name="ragged"), dict(engine="normal"), "normal"))
        # option values that make the call fail: a codec name Python does not know, a null_policy lasio does not know
        for na in (0, 1):
            pairs.append(mk(call, dict(small, nonascii=na), dict(encoding="no-such-codec"), "unknown-codec"))
            pairs.append(mk(call, dict(small, nonascii=na, bom=1), dict(encoding="no-such-codec"), "unknown-codec-bom"))
            pairs.append(mk(call, dict(small, nonascii=na), dict(encoding="no-such-codec", autodetect_encoding=False), "unknown-codec-noauto"))
        # an error handler Python does not know: open() accepts the name and only looks it up at the first undecodable byte
        for na, enc in ((0, "utf-8"), (1, "utf-8"), (1, "latin-1")):
            for extra_kw, t2 in ((dict(), ""), (dict(encoding="utf-8"), "-utf8"), (dict(autodetect_encoding=False), "-noauto"),
                                 (dict(encoding="ascii"), "-ascii")):
                pairs.append(mk(call, dict(small, nonascii=na, enc=enc), dict(encoding_errors="no-such-handler", **extra_kw),
                                "unknown-error-handler" + t2))
        pairs.append(mk(call, small, dict(encoding_errors=None), "error-handler-None"))
        pairs.append(mk(call, small, dict(null_policy="no-such-policy"), "unknown-null-policy"))
        pairs.append(mk(call, small, dict(engine="no-such-engine"), "unknown-engine"))
        pairs.append(mk(call, dict(name="ragged", wrap="YES", curves=4), dict(), "wrapped"))
        for name in ("undecodable-early", "undecodable-late"):
            pairs.append(mk(call, dict(name=name), dict(encoding="utf-8", encoding_errors="strict"), "strict"))
            pairs.append(mk(call, dict(name=name), dict(encoding_errors="strict", autodetect_encoding=False), "strict-adhoc"))
            pairs.append(mk(call, dict(name=name), dict(encoding_errors="strict"), "strict-chardet"))
            pairs.append(mk(call, dict(name=name), dict(encoding="utf-8"), "replace"))
    # seeded variations
    rng = random.Random(seed * 7919 + 20)
    n = 24 if tier == "quick" else 120
    rmax = 40 if tier == "quick" else 120
    for _ in range(n):
        inp = dict(name="gen", curves=rng.randint(1, 8), rows=rng.randint(1, rmax), wrap=rng.choice(["NO", "NO", "YES"]),
                   nonascii=rng.randint(0, 1), other=rng.randint(0, 1), hyphen=rng.randint(0, 1),
                   textcol=rng.choice([0, 0, 0, 1]), nl=rng.choice(["\n", "\n", "\r\n"]))
        if inp["nonascii"]:
            inp["enc"] = rng.choice(["utf-8", "latin-1"])
        inp["bom"] = rng.randint(0, 1) if inp.get("enc", "utf-8") == "utf-8" else 0
        kw = dict(autodetect_encoding=rng.choice([True, False, "chardet"]), engine=rng.choice(["numpy", "normal"]))
        if rng.random() < 0.2:
            kw["ignore_data"] = True
        pairs.append(mk(rng.choice(["read_path", "read_str"]), inp, kw, "seeded"))
    return dedupe(pairs)


WRITE_KW = [(None, None), (dict(version="1.2"), "v1.2"), (dict(wrap=True), "wrap"), (dict(fmt="%.3f"), "fmt"),
            (dict(mnemonics_header=True), "mnemonics_header"), (dict(STRT=0, STOP=1, STEP=1), "given-strt")]
WRITE_BAD_KW = [(dict(version="3.0"), "v3.0"), (dict(fmt="%q"), "bad-fmt"), (dict(no_such_option=1), "bad-kw")]
WRITE_BAD_MUT = ["no-STOP", "no-STRT", "no-NULL", "nan-no-NULL", "no-VERS", "text-index", "no-curves", "mnemonic-None"]
CSV_KW = [(None, None), (dict(units_loc="[]"), "[]"), (dict(units_loc="()", lineterminator="\r\n"), "()crlf"),
          (dict(mnemonics=False, units=False), "no-header")]
CSV_BAD = [("ragged-curves", None, None), ("no-curves", None, None), ("unit-None", dict(units_loc="[]"), "[]"),
           ("unit-comma", dict(quoting=3), "quote-none"), ("valid", dict(delimiter="ab"), "bad-delimiter"),
           ("valid", dict(no_such_option=1), "bad-kw"), ("valid", dict(mnemonics=5), "mnemonics-int"),
           ("valid", dict(units_loc="()", mnemonics=[1, 2, 3]), "mnemonics-ints")]


def shapes(tier, seed, n_seeded):
    cs = (1, 2, 5)
    rs = (1, 3, 30) if tier == "quick" else (1, 3, 30, 100)
    out = [(c, r) for c in cs for r in rs]
    rng = random.Random(seed * 104729 + 7)
    for _ in range(n_seeded):
        out.append((rng.randint(1, 8), rng.randint(1, 60 if tier == "quick" else 150)))
    return out


def write_pairs(tier, seed, call="write_path", sinks=(None,)):
    pairs = []
    for sink in sinks:
        for c, r in shapes(tier, seed, 6 if tier == "quick" else 20):
            if sink == "stringio" and r > (3 if tier == "quick" else 30):
                continue
            for kw, tag in WRITE_KW:
                pairs.append(mk(call, dict(name="obj", mut="valid", curves=c, rows=r), kw, tag, sink))
        for c, r in ((3, 3), (1, 1), (5, 30)):
            for mut in WRITE_BAD_MUT:
                pairs.append(mk(call, dict(name="obj", mut=mut, curves=c, rows=r), None, None, sink))
            for kw, tag in WRITE_BAD_KW:
                pairs.append(mk(call, dict(name="obj", mut="valid", curves=c, rows=r), kw, tag, sink))
            pairs.append(mk(call, dict(name="obj", mut="text-index", curves=c, rows=r), dict(fmt="%s"), "fmt-s", sink))
    return dedupe(pairs)


def csv_pairs(tier, seed, call="to_csv_path", sinks=(None,)):
    pairs = []
    for sink in sinks:
        for c, r in shapes(tier, seed + 1, 6 if tier == "quick" else 20):
            if sink == "stringio" and r > (3 if tier == "quick" else 30):
                continue
            for kw, tag in CSV_KW:
                pairs.append(mk(call, dict(name="obj", mut="valid", curves=c, rows=r), kw, tag, sink))
        for c, r in ((3, 3), (1, 1), (5, 30)):
            for mut, kw, tag in CSV_BAD:
                pairs.append(mk(call, dict(name="obj", mut=mut, curves=c, rows=r), kw, tag, sink))
            pairs.append(mk(call, dict(name="obj", mut="text-index", curves=c, rows=r), None, None, sink))
    return dedupe(pairs)


def dedupe(pairs):
    seen, out = set(), []
    for p in pairs:
        key = repr(sorted(p.items(), key=lambda kv: kv[0]))
        if key not in seen:
            seen.add(key)
            out.append(p)
    return out


def _enumerate_one(ctx, pair, wd, cap):
    complete = True
    base = dict(pair, k=None)
    out, info = evaluate(base, workdir=wd)
    n, m = info["ops"], info["opens"]
    out.cls("inputs|" + pair["call"])
    ctx.record(base, out, distinct=True)
    if pair["call"].endswith("_path") and info["label"] == "clean" and info["tracked"] == 0:
        raise HarnessError("a successful %s did not open any file through the tracker: patching does not reach "
                           "lasio (%r)" % (pair["call"], pair))
    selftest(pair)
    if n > cap:
        complete = False
        ctx.stats.notes.append("input with %d operations: only the first %d fault points enumerated (%r)" % (n, cap, pair))
        n = cap
    for k in range(1, n + 1):
        if ctx.over_budget():
            ctx.stats.skipped_budget += 1
            complete = False
            continue
        case = dict(pair, k=k)
        out, info = evaluate(case, workdir=wd)
        if info["fired"] is None:
            raise HarnessError("fault point k=%d of %d not reached: operation sequence is not deterministic (%r)"
                               % (k, n, pair))
        out.cls("faultpoints|" + pair["call"])
        ctx.record(case, out, distinct=True)
    for j in range(1, m + 1):
        case = dict(pair, k=None, kopen=j)
        out, info = evaluate(case, workdir=wd)
        if info["fired"] is None:
            raise HarnessError("open #%d of %d not reached (%r)" % (j, m, pair))
        out.cls("faultpoints|" + pair["call"], "openfaults|" + pair["call"])
        ctx.record(case, out, distinct=True)
    if pair["call"].endswith("_path") or pair["call"] == "read_str":
        # two-call histories: the call (clean, failing by itself, or failing at a sample of the fault points and at
        # every open) followed by write()/to_csv() of the same object to a stream of the caller's
        points = [dict(k=None)] + [dict(k=k) for k in sorted({1, max(1, n // 2), n}) if n >= 1] + [dict(k=None, kopen=j) for j in range(1, m + 1)]
        for then in ("write", "to_csv"):
            for pt in points:
                case = dict(pair, then=then, **pt)
                out, info = evaluate(case, workdir=wd)
                out.cls("histories|" + pair["call"])
                ctx.record(case, out, distinct=True)
    return complete


def enumerate_pairs(ctx, pairs):
    """Clean run (N operations, M opens), then every k in 1..N and every open j in 1..M, for the pairs of this shard."""
    faultio.check_reachable()
    cap = CAP[ctx.tier]
    complete = True
    for i, pair in enumerate(pairs):
        if i % ctx.nshards != ctx.shard:
            continue
        if ctx.over_budget():
            ctx.stats.skipped_budget += 1
            complete = False
            continue
        wd = mkdtemp("c20-pair-")
        try:
            complete = _enumerate_one(ctx, pair, wd, cap) and complete
        finally:
            shutil.rmtree(wd, ignore_errors=True)
    ctx.exhaustive = complete


def part_read(ctx):
    enumerate_pairs(ctx, read_pairs(ctx.tier, ctx.seed))


def part_write(ctx):
    pairs = write_pairs(ctx.tier, ctx.seed)
    enumerate_pairs(ctx, pairs + [dict(p, call="write_bytes_path") for p in pairs[::4]])


def part_csv(ctx):
    pairs = csv_pairs(ctx.tier, ctx.seed)
    enumerate_pairs(ctx, pairs + [dict(p, call="to_csv_bytes_path") for p in pairs[::4]])


def part_binary_sinks(ctx):
    """write()/to_csv() to a BINARY stream of the caller's (BytesIO, open(..., 'wb'), unbuffered): tracked without the
    proxy (a proxy would hide the stream's type from lasio), so no faults are injected here; the verdict is the same -
    the caller's object is open after the call, returned or raised, and nothing lasio opened is left open."""
    pairs = []
    for call, kws in (("write_fileobj", WRITE_KW), ("to_csv_fileobj", CSV_KW)):
        for sink in ("bytesio", "binfile", "rawfile"):
            for kw, tag in kws:
                for shape in (dict(curves=1, rows=1), dict(curves=3, rows=4), dict(curves=3, rows=4, textcol=1)):
                    pairs.append(mk(call, dict(name="gen", wrap="NO", **shape), kw, tag, sink))
    for i, pair in enumerate(pairs):
        if i % ctx.nshards != ctx.shard:
            continue
        case = dict(pair, k=None)
        out, info = evaluate(case, mode="track")
        out.cls("binary-sink|" + pair["call"] + "|" + pair["sink"])
        out.nontrivial = True
        ctx.record(case, out, distinct=True)
        for then in ("write", "to_csv"):
            case2 = dict(case, then=then)
            out, info = evaluate(case2, mode="track")
            out.cls("binary-sink|histories")
            out.nontrivial = True
            ctx.record(case2, out, distinct=True)
    ctx.exhaustive = True


def part_fileobj(ctx):
    enumerate_pairs(ctx, write_pairs(ctx.tier, ctx.seed + 2, "write_fileobj", ("file", "stringio"))
                    + csv_pairs(ctx.tier, ctx.seed + 2, "to_csv_fileobj", ("file", "stringio")))


def parts(tier):
    # wall budgets per task; the 4 x 16 tasks share 16 workers, so one worker may run one task of each part in turn:
    # the sums (80 s, 840 s) bound the run even on a machine that is busy with other work
    def b(quick, thorough):
        return {"quick": quick, "thorough": thorough}

    return [
        Custom("read(path|Path) x inputs x every fault point", part_read, max_shards=16, budget_s=b(40, 480)),
        Custom("write(path) x objects x every fault point", part_write, max_shards=16, budget_s=b(10, 100)),
        Custom("to_csv(path) x objects x every fault point", part_csv, max_shards=16, budget_s=b(10, 100)),
        Custom("write/to_csv(caller file object) x every fault point", part_fileobj, max_shards=16, budget_s=b(20, 160)),
        Custom("write/to_csv(caller BINARY stream), tracked without proxy", part_binary_sinks, max_shards=4, budget_s=b(20, 60)),
    ]


def evidence_extra(stats):
    table = {}
    for call in CALLS:
        table[call] = dict(inputs=stats.classes.get("inputs|" + call, 0),
                           fault_points=stats.classes.get("faultpoints|" + call, 0),
                           of_which_open_faults=stats.classes.get("openfaults|" + call, 0))
    return dict(per_call_kind=table,
                exception_classes={k[4:]: v for k, v in sorted(stats.classes.items()) if k.startswith("exc:")},
                fault_sites={k[6:]: v for k, v in sorted(stats.classes.items()) if k.startswith("fault:")},
                faults_swallowed_by_lasio=stats.classes.get("fault-swallowed-by-lasio", 0))


def vacuity(stats):
    if not any(k.startswith("fault:") for k in stats.classes):
        return "no injected fault was ever reached"
    # (an enumerated fault point that is not reached is a harness error raised by the enumeration itself; replayed
    # cases may legitimately carry a k beyond the current operation count)
    return None
