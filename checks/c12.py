"""C12 - writer options change presentation only, never content (1.2 <-> 2.0 included)."""
from hypothesis import strategies as st

from vlib import build, canon, inputs
from vlib.api import Enum, Hyp, Outcome, attempt, is_raised
from vlib.filecheck import read_text

ID = "C12"
LEVEL = "exploration"
RULE = ("inputs: example files (both versions), generated LASFiles (C03 generator + odd units, NaN, text curves, ~W "
        "items named like STRT/STOP/STEP in other letter cases) and generated texts (C05); two writer configurations "
        "drawn from version {1.2, 2} x wrap x len_numeric_field x spacer x lhs_spacer x data_width x header_width x "
        "data_section_header x mnemonics_header with the same numeric format (fmt and, 1 in 3, a shared column_fmt; "
        "data_width also exactly the widest data token + {0,1,2}; samples with more digits than the format prints); each configuration writes a FRESH "
        "object; both outputs are re-read with the same mnemonic_case in {upper, preserve, lower}. Oracle "
        "(metamorphic): canonical contents of the two re-reads are equal (header values numerically, data exactly) "
        "apart from the VERS and WRAP items. Non-trivial: the configurations differ in version or wrap and in >= 1 "
        "layout option.")
ASSUMPTIONS = [
    "an input that cannot be read, or cannot be written under either configuration, is rejected (outside the property)",
    "sources with text samples the writer cannot quote (both quote characters: open finding D41) are excluded by construction and counted",
]

SKIP = {("Version", "VERS"), ("Version", "WRAP")}
LAYOUT_KEYS = ("len_numeric_field", "spacer", "lhs_spacer", "data_width", "header_width", "data_section_header", "mnemonics_header")


def oracle(case):
    from checks.c11 import numeric_unit, text_hit_by_subs, text_unquotable, text_with_blanks

    out = Outcome()
    src = case["src"]
    rk = dict(case.get("read_kw", {}))
    a_opts, b_opts = dict(case["a"]), dict(case["b"])
    out.cls("src-" + inputs.kind(src), "mc-" + rk.get("mnemonic_case", "upper"))
    out.sample = dict(src=src if "file" in src else inputs.kind(src), a=a_opts, b=b_opts)
    texts = []
    colon_items = set()
    hit = False
    for opts in (a_opts, b_opts):
        las = inputs.load(src, **rk)
        if is_raised(las):
            out.rejected = True
            out.cls("unreadable")
            return out
        if text_unquotable(las) or text_hit_by_subs(las):
            out.excluded = True
            out.cls("excluded-open-finding")
            if not case.get("force"):
                return out
            hit = True
        if text_with_blanks(las):
            out.cls("text-sample-with-blanks")
        for name, sec in las.sections.items():
            if not isinstance(sec, str):
                for it in sec:
                    if ":" in str(it.value) or ":" in str(it.descr):
                        # 'DESCR : VALUE' (LAS 1.2 ~W) with a colon inside a field is ambiguous in the format itself
                        colon_items.add((name, it.original_mnemonic.upper()))
        t = attempt(build.write_text, las, **resolve(opts, las, out))
        if is_raised(t):
            out.rejected = True
            out.cls("unwritable:" + t.type)
            return out
        texts.append(t)
    vdiff = a_opts.get("version") != b_opts.get("version")
    wdiff = a_opts.get("wrap") != b_opts.get("wrap")
    ldiff = any(a_opts.get(k) != b_opts.get(k) for k in LAYOUT_KEYS)
    out.cls("version-differs" if vdiff else "same-version", "wrap-differs" if wdiff else "same-wrap")
    out.nontrivial = (vdiff or wdiff) and ldiff
    reads = []
    for t, opts in zip(texts, (a_opts, b_opts)):
        r = read_text(t, **rk)
        if is_raised(r):
            out.fail("text-sample-rewritten-by-data-line-substitutions" if hit else "reread-raises|%s|v%s|wrap=%s" % (r.bucket, opts.get("version"), opts.get("wrap")),
                     "lasio cannot read its own output written with %r: %s\n%s\n%s" % (opts, r, inputs.describe(src)[:500], t[:2500]))
            return out
        reads.append(canon.from_las(r))
    skip = set(SKIP)
    if vdiff and colon_items:
        skip |= colon_items
        out.cls("colon-items-not-compared")
    d = canon.diff(reads[0], reads[1], names=("cfgA", "cfgB"), skip_items=skip)
    if d:
        why = "version" if vdiff and d[0][0].startswith("Well") else ("wrap" if wdiff and d[0][0].startswith("data") else "layout")
        out.fail("text-sample-rewritten-by-data-line-substitutions" if hit else "content-depends-on-options|%s|%s" % (d[0][0], why),
                 "cfgA=%r\ncfgB=%r\n%s\n%s\n--- text A ---\n%s\n--- text B ---\n%s" % (a_opts, b_opts, canon.show(d), inputs.describe(src)[:500],
                                                                                      texts[0][:2000], texts[1][:2000]))
    return out


def resolve(opts, las, out):
    """column_fmt keys back to int (JSON replays); data_width 'fit+K' -> width of the widest data token + K (the
    documented precondition of wrapping is that every token fits on a line: K = 0 is its boundary)."""
    o = dict(opts)
    if "column_fmt" in o:
        o["column_fmt"] = {int(k): v for k, v in o["column_fmt"].items()}
        out.cls("column_fmt")
    dw = o.get("data_width")
    if isinstance(dw, str):
        widest = 1
        try:
            for j, cv in enumerate(las.curves):
                f = o.get("column_fmt", {}).get(j, o.get("fmt", "%.5f"))
                for x in cv.data:
                    try:
                        t = str(las.well["NULL"].value) if x != x else f % x
                    except TypeError:
                        t = str(x) + "  "
                    widest = max(widest, len(t))
            o["data_width"] = widest + int(dw.split("+")[1])
            out.cls("data_width-boundary")
        except Exception:  # noqa - no NULL item etc.: the plain default
            o["data_width"] = 79
    return o


CFG = st.fixed_dictionaries({"version": st.sampled_from([1.2, 2]), "wrap": st.booleans()}, optional={
    "len_numeric_field": st.sampled_from([None, -1, 12, 18]),
    "spacer": st.sampled_from([" ", "  ", "\t"]),
    "lhs_spacer": st.sampled_from([" ", "", "   "]),
    "data_width": st.sampled_from([79, 60, 120, 200]),
    "header_width": st.sampled_from([60, 40, 80]),
    "data_section_header": st.sampled_from(["~ASCII", "~A", "~A log data"]),
    "mnemonics_header": st.booleans(),
})
FMT = st.sampled_from(["%.5f", "%.5f", "%.3f", "%.10g", "%12.4f"])


def corpus_cases(tier):
    pairs = [({"version": 1.2, "wrap": False}, {"version": 2, "wrap": False}),
             ({"version": 2, "wrap": True, "data_width": 60}, {"version": 2, "wrap": False, "spacer": "  "}),
             ({"version": 1.2, "wrap": True, "mnemonics_header": True}, {"version": 2, "wrap": False, "header_width": 40, "len_numeric_field": 14}),
             ({"version": 2, "wrap": False, "data_section_header": "~A"}, {"version": 1.2, "wrap": True, "lhs_spacer": ""})]
    for f in inputs.corpus_files():
        for a, b in pairs:
            for rk in ({}, {"mnemonic_case": "preserve"}):
                yield {"src": {"file": f}, "a": a, "b": b, "read_kw": rk}


@st.composite
def desc_cases(draw):
    desc = draw(inputs.descs())
    fmt = draw(FMT)
    a, b = dict(draw(CFG)), dict(draw(CFG))
    a["fmt"] = b["fmt"] = fmt
    if draw(st.integers(0, 2)) == 0:
        # per-column formats are part of the numeric format: the same for both configurations
        nc = len(desc["curves"])
        cf = {str(j): draw(st.sampled_from(["%.1f", "%.3f", "%.7f", "%10.2f", "%.4e"])) for j in range(nc) if draw(st.integers(0, 2)) == 0}
        if nc and draw(st.booleans()):
            cf[str(nc - 1)] = draw(st.sampled_from(["%.1f", "%.7f"]))
        if cf:
            a["column_fmt"], b["column_fmt"] = dict(cf), dict(cf)
            if draw(st.booleans()):
                # the same per-column formats spelled the other way round: every column named in column_fmt, fmt (then
                # unused) something else. Equal precision column by column, so equal content - header included
                b["column_fmt"] = {str(j): cf.get(str(j), fmt) for j in range(nc)}
                b["fmt"] = draw(st.sampled_from(["%.1f", "%.9f", "%.4e"]))
    for cfg in (a, b):
        if cfg.get("wrap") and draw(st.integers(0, 3)) == 0 and "\t" not in cfg.get("spacer", " "):
            cfg["data_width"] = "fit+%d" % draw(st.integers(0, 2))
    if draw(st.integers(0, 2)) == 0:
        b["version"] = 1.2 if a["version"] == 2 else 2
    return {"src": {"desc": desc}, "a": a, "b": b,
            "read_kw": {"mnemonic_case": draw(st.sampled_from(["upper", "preserve", "lower"]))}}


@st.composite
def spec_cases(draw):
    from checks import c05

    c = draw(c05.specs())
    a, b = dict(draw(CFG)), dict(draw(CFG))
    return {"src": {"spec": c["spec"]}, "a": a, "b": b, "read_kw": {"mnemonic_case": c["mnemonic_case"]}}


def wide_cases(tier):
    """Many curves (rows far longer than 256 characters, curve counts that are multiples of the fields per 79-character line):
    version 1.2 against 2.0, unwrapped against wrapped."""
    counts = [24, 28, 35] if tier == "quick" else [7, 14, 21, 23, 24, 25, 28, 35, 36, 40]
    for c in counts:
        for r in (2, 5):
            curves = [["C%d" % j, "", "", "", [repr(100.0 + i * 0.5 + j * 10) for i in range(r)]] for j in range(c)]
            desc = dict(version=[], well=[], params=[], curves=curves, other="", strt_unit="m", null=["f", "-9999.25"])
            for a, b in (({"version": 1.2, "wrap": False}, {"version": 2, "wrap": False}),
                         ({"version": 1.2, "wrap": False}, {"version": 1.2, "wrap": True}),
                         ({"version": 2, "wrap": True, "data_width": 120}, {"version": 1.2, "wrap": False, "len_numeric_field": 14})):
                yield {"src": {"desc": desc}, "a": a, "b": b, "read_kw": {}}


def parts(tier):
    return [
        Enum("example-corpus", corpus_cases),
        Enum("wide-files", wide_cases),
        Hyp("generated-lasfiles", desc_cases, quick=3000, thorough=50000),
        Hyp("generated-texts", spec_cases, quick=1500, thorough=20000),
    ]
