"""C09 - reading is invariant under presentation-only changes of the text."""
import copy
import glob
import io
import os

from hypothesis import strategies as st

from vlib import canon, expect, lastext, strategies as S
from vlib.api import Custom, Hyp, Outcome, attempt, is_raised, REPO
from vlib.filecheck import compare_with_expected, read_text, spec_summary

ID = "C09"
LEVEL = "exploration"
RULE = ("generated bases: FileSpecs (versions 1.2/2.0, WRAP NO/YES, DLM SPACE/TAB/COMMA) drawn directly in a 'noisy' "
        "presentation: blank and '#' lines at any position of header-item and data sections, arbitrary blanks/tabs "
        "between the fields and around every line including title lines, LF or CRLF, with/without final newline, "
        "WRAP=YES depth steps cut at arbitrary token boundaries, delimiters with/without padding blanks; the base is the "
        "same spec normalised to the plainest presentation. Corpus bases: every readable example file with 1..4 "
        "text-level edits (blank/comment line insertion outside ~O, trailing blanks, leading blanks, CRLF, final "
        "newline dropped). Oracle (metamorphic): canonical content of read(variant) == read(base), exact floats; for "
        "generated bases both also equal the expected reading of the spec. Non-trivial: >= 2 transformation kinds "
        "with a site in a header section and one in the data section.")
ASSUMPTIONS = [
    "blank and comment lines are never inserted inside ~Other, whose lines are content",
    "WRAP=YES files declare exactly the curves they carry and use the SPACE delimiter; each depth step starts on a new line",
    "data tokens are plain decimal numbers, plain words or ISO dates (no quotes, no embedded delimiter characters or blanks)",
]

DLM_SEP = {"SPACE": " ", "TAB": "\t", "COMMA": ","}


def normalise(spec):
    """The plainest presentation of the same content."""
    base = copy.deepcopy(spec)
    base["nl"] = "\n"
    base["final_nl"] = True
    dlm = spec_dlm(spec)
    for sec in base["sections"]:
        sec["tlead"] = ""
        sec["ttrail"] = ""
        if sec["kind"] == "O":
            for ln in sec["lines"]:
                ln["text"] = ln["text"].strip()
            continue
        sec["lines"] = [ln for ln in sec["lines"] if ln["t"] not in ("blank", "comment")]
        if sec["kind"] == "A":
            toks = [t for ln in sec["lines"] for t in ln["toks"]]
            c = sec["ncols"]
            sep = DLM_SEP[dlm]
            sec["lines"] = [lastext.row(toks[i:i + c], sep=sep) for i in range(0, len(toks), c)] if c else []
        else:
            for ln in sec["lines"]:
                if ln["t"] == "item":
                    ln["p"] = list(S.plain_pads)
    return base


def spec_dlm(spec):
    for sec in spec["sections"]:
        if sec["kind"] == "V":
            for ln in sec["lines"]:
                if ln["t"] == "item" and ln["m"].upper() == "DLM":
                    return ln["v"]
    return "SPACE"


def features(spec):
    """Which presentation transformations the variant contains, and where."""
    kinds, header_site, data_site = set(), False, False
    if spec.get("nl") == "\r\n":
        kinds.add("crlf")
        header_site = data_site = True
    if not spec.get("final_nl", True):
        kinds.add("no-final-nl")
    for sec in spec["sections"]:
        is_data = sec["kind"] == "A"
        if sec.get("tlead") or sec.get("ttrail"):
            kinds.add("title-padding")
            header_site = True
        for ln in sec["lines"]:
            if ln["t"] in ("blank", "comment") and sec["kind"] != "O":
                kinds.add("noise-" + ln["t"])
                if is_data:
                    data_site = True
                else:
                    header_site = True
            elif ln["t"] == "item" and ln.get("p") and list(ln["p"]) != list(S.plain_pads):
                kinds.add("field-padding")
                header_site = True
            elif ln["t"] == "row":
                if ln.get("lead") or ln.get("trail") or any(s not in (" ", "\t", ",") for s in ln.get("seps", [])):
                    kinds.add("data-padding")
                    data_site = True
                if sec.get("ncols") and len(ln["toks"]) != sec["ncols"]:
                    kinds.add("rewrap")
                    data_site = True
    return kinds, header_site, data_site


def oracle(case):
    if "file" in case:
        return oracle_corpus(case)
    out = Outcome()
    spec = case["spec"]
    base = normalise(spec)
    mc = case.get("mnemonic_case", "upper")
    engine = case.get("engine", "numpy")
    kinds, hs, ds = features(spec)
    dlm = spec_dlm(spec)
    wrapped = any(ln["m"].upper() == "WRAP" and ln["v"] == "YES" for s in spec["sections"] if s["kind"] == "V" for ln in s["lines"] if ln["t"] == "item")
    out.cls(*sorted(kinds))
    out.cls("dlm-" + dlm, "wrapped" if wrapped else "unwrapped", "v" + lastext.spec_version(spec))
    out.nontrivial = len(kinds) >= 2 and hs and ds
    vtext, btext = lastext.render(spec), lastext.render(base)
    out.sample = vtext if len(vtext) < 900 else vtext[:900] + "..."
    rkw = {}
    if case.get("policy_list"):
        # the default read policy spelled out by the caller (docs/source/data-section.rst): a configuration like any other
        rkw["read_policy"] = ["comma-decimal-mark", "run-on(-)", "run-on(.)"]
        out.cls("read_policy-spelled-out")
    a = read_text(btext, mnemonic_case=mc, engine=engine, **rkw)
    b = read_text(vtext, mnemonic_case=mc, engine=engine, **rkw)
    tag = "dlm-%s|%s" % (dlm, "wrapped" if wrapped else "unwrapped")
    if is_raised(a):
        out.fail("base-raises|%s|%s" % (a.bucket, tag), "the plain presentation could not be read: %s\n%s" % (a, btext))
        return out
    if is_raised(b):
        out.fail("variant-raises|%s|%s|%s" % (b.bucket, tag, first_kind(kinds)), "base reads, variant raises %s\n--- variant ---\n%s" % (b, vtext))
        return out
    ca, cb = canon.from_las(a), canon.from_las(b)
    d = canon.diff(cb, ca, names=("variant", "base"))
    if d:
        out.fail("text-token-keeps-delimiter-padding" if padded_text_tokens(spec, dlm) and d[0][0] == "data.cell" else
                 "variant-differs|%s|%s|%s" % (d[0][0], tag, blame(spec, d[0][0], kinds)),
                 canon.show(d) + "\n--- variant ---\n" + vtext + "\n--- base ---\n" + btext)
        return out
    dd, _, _ = compare_with_expected(a, base, mnemonic_case=mc)
    if dd:
        out.fail("base-differs-from-expected|%s|%s" % (dd[0][0], tag), canon.show(dd) + "\n" + btext)
    return out


def padded_text_tokens(spec, dlm):
    """Open finding D40: a non-numeric data token next to padding blanks of a COMMA/TAB delimiter."""
    if dlm not in ("COMMA", "TAB"):
        return False
    for sec in spec["sections"]:
        if sec["kind"] != "A":
            continue
        for ln in sec["lines"]:
            if ln["t"] != "row":
                continue
            for i, tok in enumerate(ln["toks"]):
                try:
                    float(tok)
                    continue
                except ValueError:
                    pass
                before = (ln.get("lead", "") if i == 0 else ln["seps"][i - 1])
                after = (ln.get("trail", "") if i == len(ln["toks"]) - 1 else ln["seps"][i])
                if before.strip(",\t") != before.strip(",\t").strip() or before[-1:] in " \t" and before.strip() in (",", "") and before != "\t" and before != "," :
                    return True
                if after[:1] == " " or (after[:1] == "\t" and dlm == "COMMA"):
                    return True
    return False


def first_kind(kinds):
    return sorted(kinds)[0] if kinds else "none"


def blame(spec, loc, kinds):
    """Narrow the root cause: which transformation kinds are present in the section the difference points at."""
    if loc.startswith("data"):
        ks = [k for k in sorted(kinds) if k in ("noise-blank", "noise-comment", "data-padding", "rewrap", "crlf", "no-final-nl")]
    elif loc.startswith("Other"):
        ks = [k for k in sorted(kinds) if k in ("title-padding", "crlf", "noise-blank", "noise-comment")]
    else:
        ks = [k for k in sorted(kinds) if k in ("field-padding", "noise-blank", "noise-comment", "title-padding", "crlf")]
    return ks[0] if len(ks) == 1 else ("several" if ks else "none")


# ---------------------------------------------------------------------------------------
# generated variants

NOISE = st.sampled_from([{"t": "blank", "text": ""}, {"t": "blank", "text": "   "}, {"t": "blank", "text": "\t"},
                         {"t": "comment", "text": "# a comment"}, {"t": "comment", "text": "#"},
                         {"t": "comment", "text": "   # indented comment : with . punctuation"},
                         {"t": "comment", "text": "#MNEM.UNIT   VALUE : DESCRIPTION"}, {"t": "comment", "text": "# 1 2 3"},
                         {"t": "comment", "text": "# note - with a hyphen"}, {"t": "comment", "text": "#-----"}])
TPAD = st.sampled_from(["", "", " ", "  ", "\t"])


def sprinkle(draw, lines, p):
    """Insert noise lines with probability p at each position (start and end included)."""
    out = []
    for ln in lines + [None]:
        while draw(st.integers(0, 99)) < p:
            out.append(draw(NOISE))
        if ln is not None:
            out.append(ln)
    return out


@st.composite
def variants(draw):
    v12 = draw(st.booleans())
    dlm = draw(st.sampled_from(["SPACE", "SPACE", "TAB", "COMMA", None]))
    wrapped = draw(st.integers(0, 3)) == 0 and dlm in ("SPACE", None)
    noise_p = draw(st.sampled_from([0, 10, 25]))
    pad_rich = draw(st.booleans())

    def item(kind, m, u, v, d):
        ln = lastext.item(m, u, v, d)
        if pad_rich:
            p = [draw(S.pad0), draw(S.pad0), draw(S.pad0), draw(S.pad0), draw(S.pad0), draw(S.pad0)]
            from vlib.lastext import swapped
            left = d if swapped(kind, m, v12) else v
            if left != "" and p[2] == "":
                p[2] = draw(S.pad1)
            ln["p"] = p
        return ln

    vl = [item("V", "VERS", "", "1.2" if v12 else "2.0", "version"), item("V", "WRAP", "", "YES" if wrapped else "NO", "wrap mode")]
    if dlm:
        vl.append(item("V", "DLM", "", dlm, "delimiter"))
    wl = [item("W", "STRT", "M", "1", "start"), item("W", "STOP", "M", "9", "stop"), item("W", "STEP", "M", "1", "step"),
          item("W", "NULL", "", "-999.25", "null value")]
    for ln in draw(st.lists(S.item_line(kind="W", v12=v12, times=False, descr_colons=False), max_size=3)):
        if not pad_rich:
            ln["p"] = list(S.plain_pads)
        wl.append(ln)
    c = draw(st.integers(1, 6))
    declared = c if (wrapped or draw(st.integers(0, 9)) < 8) else draw(st.integers(0, 7))
    cl = [item("C", "C%d" % k, draw(st.sampled_from(["", "M", "GAPI"])), "", "curve %d" % k) for k in range(declared)]
    secs = [lastext.section("V", "~Version", vl), lastext.section("W", "~Well", wl), lastext.section("C", "~Curves", cl)]
    if draw(st.booleans()):
        pl = draw(st.lists(S.item_line(kind="P", v12=v12), max_size=3))
        for ln in pl:
            if not pad_rich:
                ln["p"] = list(S.plain_pads)
        secs.append(lastext.section("P", "~Parameter", pl))
    if draw(st.booleans()):
        secs.append(lastext.section("O", "~Other", [{"t": "text", "text": draw(st.sampled_from(["a note", "  indented note", "1 2 3", "x.y : z"]))}
                                                     for _ in range(draw(st.integers(0, 2)))]))
    r = draw(st.integers(1, 6))
    tok = st.one_of(S.number_token(spellings=("int", "fixed", "exp")), st.just("-999.25"))
    sep_char = DLM_SEP[dlm or "SPACE"]
    rows = []
    # optional text columns: plain words, or ISO dates (a '-' between digits in every data line)
    word_col = draw(st.integers(1, c - 1)) if c >= 2 and draw(st.integers(0, 4)) == 0 else None
    # dates only in unwrapped files: there every data line carries the hyphen, which is what lasio documents as the
    # condition for leaving 2020-01-01 alone (in a wrapped file the default run-on(-) substitution legitimately applies)
    date_col = draw(st.integers(1, c - 1)) if c >= 3 and not wrapped and draw(st.integers(0, 4)) == 0 else None
    if date_col == word_col:
        date_col = None
    all_toks = []
    for i in range(r):
        toks = [draw(tok) for _ in range(c)]
        toks[0] = str(i + 1)
        all_toks.append(toks)
        if word_col is not None:
            toks[word_col] = draw(st.sampled_from(["abc", "LIME", "x1", "N/A", "sand"]))
        if date_col is not None:
            toks[date_col] = "2020-01-%02d" % (i + 1)
        # open finding D40: text tokens keep the blanks that pad a COMMA/TAB delimiter -> no padding next to text tokens
        rich_rows = pad_rich and not (sep_char != " " and (word_col is not None or date_col is not None))
        if wrapped:
            # cut the depth step at arbitrary token boundaries; each step starts on a new line
            k = 0
            while k < c:
                n = draw(st.integers(1, c - k))
                rows.append(mkrow(draw, toks[k:k + n], sep_char, rich_rows))
                k += n
        else:
            rows.append(mkrow(draw, toks, sep_char, rich_rows))
    if wrapped and r >= 2 and draw(st.integers(0, 3)) == 0:
        # re-wrap the whole token stream, line ends at ANY token boundary (also inside and across depth steps);
        # constant line widths (what the column sniffer looks at) are favoured: 2c, c+1, a divisor of r*c, ...
        stream = [t for i in range(r) for t in all_toks[i]]
        n = len(stream)
        width = draw(st.one_of(st.sampled_from([2 * c, c + 1, n, max(1, c - 1), 3 * c]), st.integers(1, n)))
        rows, k = [], 0
        while k < n:
            w = width if draw(st.integers(0, 5)) else draw(st.integers(1, n))
            rows.append(mkrow(draw, stream[k:k + w], sep_char, rich_rows))
            k += w
    asec = lastext.section("A", draw(st.sampled_from(["~A", "~ASCII", "~A  DEPT GR"])), rows, ncols=c)
    secs.append(asec)
    if draw(st.integers(0, 3)) == 0 and len(secs) > 4:
        # ~A not last: move it before the optional sections
        secs.remove(asec)
        secs.insert(3, asec)
    for s in secs:
        if s["kind"] != "O" and noise_p:
            s["lines"] = sprinkle(draw, s["lines"], noise_p)
    if draw(st.integers(0, 9)) == 0:
        # more blank / comment lines between the ~A title and the first row than any sample of lines a sniffer may take
        asec["lines"] = [draw(NOISE) for _ in range(draw(st.integers(21, 30)))] + asec["lines"]
        if draw(st.integers(0, 5)) == 0:
            s["tlead"] = draw(TPAD)
            s["ttrail"] = draw(TPAD)
    spec = {"nl": draw(st.sampled_from(["\n", "\n", "\r\n"])), "final_nl": draw(st.sampled_from([True, True, False])), "sections": secs}
    var = draw(S.scaffold())
    if var:
        var["drop_wrap_no"] = False  # keeps the normalised base identical in content; title spellings are the point here
        var["dlm_space"] = False
        var.get("titles", {}).pop("A", None)
        S.apply_scaffold(spec, var)
    case = {"spec": spec, "mnemonic_case": draw(st.sampled_from(["upper", "preserve", "lower"])), "engine": draw(st.sampled_from(["numpy", "normal"]))}
    if draw(st.integers(0, 5)) == 0:
        case["policy_list"] = True
    return case


def mkrow(draw, toks, sep_char, rich):
    if not rich:
        return lastext.row(toks, sep=sep_char)
    if sep_char == " ":
        seps = [draw(S.SEP) for _ in range(len(toks) - 1)]
    elif sep_char == "\t":
        seps = [draw(st.sampled_from(["\t", "\t", " \t", "\t ", " \t "])) for _ in range(len(toks) - 1)]
    else:
        seps = [draw(st.sampled_from([",", ",", ", ", " ,", " , ", ",\t"])) for _ in range(len(toks) - 1)]
    return {"t": "row", "toks": list(toks), "lead": draw(S.pad0), "seps": seps, "trail": draw(S.pad0)}


# ---------------------------------------------------------------------------------------
# corpus bases


def corpus_files():
    root = os.path.join(REPO, "tests", "examples")
    files = []
    for pat in ("*.las", "*.LAS", "*/*.las", "*/*.LAS"):
        files.extend(glob.glob(os.path.join(root, pat)))
    return sorted(set(os.path.relpath(f, root) for f in files))


def load_text(rel):
    import lasio.reader as R

    path = os.path.join(REPO, "tests", "examples", rel)
    try:
        f, enc = R.open_file(path)
        with f:
            return f.read()
    except Exception:  # noqa - undecodable / not a text file: not a base
        return None


def section_of_lines(lines):
    """For each line the letter of the section it belongs to ('' before the first title); titles marked 'T'."""
    cur = ""
    out = []
    for ln in lines:
        s = ln.strip()
        if s.startswith("~"):
            cur = s[1:2].upper()
            out.append("T" + cur)
        else:
            out.append(cur)
    return out


def apply_ops(text, ops):
    lines = text.split("\n")
    had_final = text.endswith("\n")
    if had_final:
        lines = lines[:-1]
    nl = "\n"
    final = had_final
    for op in ops:
        kind = op[0]
        if kind == "crlf":
            nl = "\r\n"
        elif kind == "nofinal":
            final = False
        else:
            sec = section_of_lines(lines)
            i = op[1] % (len(lines) + 1)
            if kind in ("blank", "comment"):
                owner = sec[i - 1] if i > 0 else ""
                if owner in ("O", "TO"):
                    continue  # lines of ~Other are content
                lines.insert(i, op[2])
            elif kind == "trail" and i < len(lines):
                if sec[i] == "O":
                    continue
                lines[i] = lines[i] + op[2]
            elif kind == "lead" and i < len(lines):
                if sec[i] == "O" or lines[i].strip() == "":
                    continue
                lines[i] = op[2] + lines[i]
    out = nl.join(lines)
    if final:
        out += nl
    return out


def oracle_corpus(case):
    out = Outcome()
    text = load_text(case["file"])
    out.cls("corpus")
    if text is None:
        out.rejected = True
        return out
    text = text.replace("\r\n", "\n").replace("\r", "\n")
    kw = dict(case.get("kw", {}))
    a = read_text(text, **kw)
    if is_raised(a):
        out.rejected = True
        out.cls("corpus-unreadable")
        return out
    vtext = apply_ops(text, case["ops"])
    kinds = sorted({op[0] for op in case["ops"]})
    out.cls(*["op-" + k for k in kinds])
    out.nontrivial = len(kinds) >= 2
    out.sample = dict(file=case["file"], ops=case["ops"])
    b = read_text(vtext, **kw)
    if is_raised(b):
        out.fail("corpus-variant-raises|%s|%s" % (b.bucket, kinds[0] if len(kinds) == 1 else "several"), "%s: base reads, variant raises %s\nops=%r" % (case["file"], b, case["ops"]))
        return out
    d = canon.diff(canon.from_las(b), canon.from_las(a), names=("variant", "base"))
    if d:
        out.fail("corpus-variant-differs|%s|%s" % (d[0][0], kinds[0] if len(kinds) == 1 else "several"), "%s ops=%r\n%s" % (case["file"], case["ops"], canon.show(d)))
    return out


@st.composite
def corpus_cases(draw):
    files = corpus_files()
    f = draw(st.sampled_from(files))
    n = draw(st.integers(1, 4))
    ops = []
    for _ in range(n):
        k = draw(st.sampled_from(["blank", "comment", "trail", "lead", "crlf", "nofinal"]))
        if k in ("crlf", "nofinal"):
            ops.append([k])
        elif k == "blank":
            ops.append([k, draw(st.integers(0, 400)), draw(st.sampled_from(["", "  ", "\t"]))])
        elif k == "comment":
            ops.append([k, draw(st.integers(0, 400)), draw(st.sampled_from(["# inserted comment", "#", "  # x : y . z"]))])
        else:
            ops.append([k, draw(st.integers(0, 400)), draw(st.sampled_from([" ", "   ", "\t"]))])
    return {"file": f, "ops": ops, "kw": {"engine": draw(st.sampled_from(["numpy", "normal"]))}}


def parts(tier):
    return [
        Hyp("generated-variants", variants, quick=5000, thorough=60000),
        Hyp("corpus-variants", corpus_cases, quick=2000, thorough=30000),
    ]
