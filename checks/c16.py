"""C16 - write() is deterministic, leaves data alone, states STRT/STOP/STEP truthfully."""
import copy
import math

import numpy as np
from hypothesis import strategies as st

from vlib import build, canon, inputs, lastext
from vlib.api import Enum, Hyp, Outcome, attempt, fenc, is_raised
from vlib.filecheck import read_text

ID = "C16"
LEVEL = "exploration"
RULE = ("inputs: LASFiles built from scratch (C03 generator + NaN/text curves), read from generated texts and from the "
        "example corpus, optionally edited after reading (index shifted / reversed / truncated / made irregular / rows "
        "dropped through set_data, `las.data = ...` or set_data_from_df, another "
        "curve's sample changed, a header value changed); indexes increasing, decreasing, single-sample, irregular; "
        "drawn writer options (STRT/STOP/STEP left to lasio); 1..3 consecutive writes. Oracle: full snapshot before "
        "and after each write (every field of every item with its type, every array byte, dtype, curve order, ~Other, "
        "index_unit): only STRT/STOP/STEP values and units, the first curve's unit, the WRAP item when wrap= is "
        "given, and the normalisation of empty/None ~Well/~Parameter values may differ; VERS in memory untouched; "
        "second write byte-identical to the first with no further in-memory change; in the output STRT == first index "
        "value, STOP == last, STEP == first increment (to the 5 decimals lasio prints), units == index curve's unit, "
        "whenever the index was created or edited in memory or the file's STOP disagreed with its data. Non-trivial: "
        "an edit between read and write, or a non-increasing index.")
ASSUMPTIONS = [
    "STRT/STOP/STEP are compared with the in-memory index within half a unit of the fifth decimal plus 1e-9 relative",
    "objects that cannot be written (no STRT/STOP/STEP/NULL item, duplicated STRT after case normalisation, text "
    "index) are rejected",
]


def snap_value(v):
    if isinstance(v, (float, np.floating)) and math.isnan(float(v)):
        return (type(v).__name__, "nan")
    return (type(v).__name__, repr(v))


def snapshot(las):
    s = {"sections": {}, "curves": [], "index_unit": repr(las.index_unit)}
    for name, sec in las.sections.items():
        if isinstance(sec, str):
            s["sections"][name] = ("text", sec)
        else:
            s["sections"][name] = [dict(orig=i.original_mnemonic, sess=i.mnemonic, unit=snap_value(i.unit), value=snap_value(i.value),
                                        descr=snap_value(i.descr), mt=bool(sec.mnemonic_transforms)) for i in sec]
    for c in las.curves:
        a = np.asarray(c.data)
        s["curves"].append((str(a.dtype), a.shape, a.tobytes() if a.dtype.kind != "O" else repr(a.tolist())))
    return s


def allowed_change(name, item_before, field, wrap_given):
    o = item_before["orig"].upper()
    if name == "Well" and o in ("STRT", "STOP", "STEP") and field in ("value", "unit"):
        return True
    if name == "Version" and o == "WRAP" and wrap_given and field in ("value", "descr", "unit", "orig", "sess"):
        return True
    if name in ("Well", "Parameter") and field == "value":
        # documented normalisation: None -> "", empty/None with a unit -> 0
        tv, rv = item_before["value"]
        if tv == "NoneType" or rv in ("''", '""'):
            return True
    return False


def compare_snapshots(before, after, wrap_given, out, when):
    for name in before["sections"]:
        b, a = before["sections"][name], after["sections"].get(name)
        if a is None:
            out.fail("section-removed|" + when, "section %r disappeared from the object" % name)
            continue
        if isinstance(b, tuple):
            if a != b:
                out.fail("other-changed|" + when, "~Other changed in memory: %r -> %r" % (b, a))
            continue
        if (name == "Version" and wrap_given and len(a) == len(b) + 1 and a[-1]["orig"].upper() == "WRAP"
                and not any(x["orig"].upper() == "WRAP" for x in b)):
            a = a[:-1]  # wrap= given on an object without a WRAP item: the item is created (documented WRAP change)
        if len(a) != len(b):
            out.fail("item-count-changed|%s|%s" % (name, when), "section %s had %d items, now %d" % (name, len(b), len(a)))
            continue
        for k, (ib, ia) in enumerate(zip(b, a)):
            for f in ("orig", "sess", "unit", "value", "descr", "mt"):
                if ib[f] != ia[f]:
                    if f == "unit" and name == "Curves" and k == 0:
                        continue
                    if allowed_change(name, ib, f, wrap_given):
                        continue
                    out.fail("in-memory-change|%s.%s|%s" % (name, f, when), "write() changed %s item %d %r field %s: %r -> %r"
                             % (name, k, ib["orig"], f, ib[f], ia[f]))
    if set(after["sections"]) != set(before["sections"]):
        out.fail("section-added|" + when, "sections %r -> %r" % (list(before["sections"]), list(after["sections"])))
    if len(before["curves"]) != len(after["curves"]):
        out.fail("curve-count-changed|" + when, "%d -> %d curves" % (len(before["curves"]), len(after["curves"])))
    else:
        for j, (cb, ca) in enumerate(zip(before["curves"], after["curves"])):
            if cb != ca:
                out.fail("curve-data-changed|" + when, "curve %d array changed by write(): dtype/shape %r -> %r" % (j, cb[:2], ca[:2]))
    if before["index_unit"] != after["index_unit"]:
        out.fail("index-unit-changed|" + when, "%s -> %s" % (before["index_unit"], after["index_unit"]))


def apply_edits(las, edits):
    """-> set of edit kinds applied. Edits use the public API / plain attribute assignment."""
    kinds = set()
    for e in edits:
        k = e[0]
        n = len(las.curves[0].data) if len(las.curves) else 0
        if n == 0:
            continue
        if k == "index_shift":
            las.curves[0].data = las.curves[0].data + float(e[1])
        elif k == "index_inplace":
            # edit the first samples of the index array IN PLACE, leaving the last sample (and so STOP) alone
            d = las.curves[0].data
            if n < 2:
                continue
            d[0] = d[0] - float(e[1])
            if n > 2:
                d[1] = d[1] + float(e[1]) / 2
        elif k == "index_reverse":
            for c in las.curves:
                c.data = c.data[::-1].copy()
        elif k == "index_truncate":
            m = max(1, n - int(e[1]))
            for c in las.curves:
                c.data = c.data[:m].copy()
        elif k == "index_interior":
            # only samples strictly inside the index move: first, last and length stay, STEP (first increment) changes
            if n < 3:
                continue
            d = las.curves[0].data.astype(float).copy()
            d[1:-1] = d[1:-1] + float(e[1]) * (d[-1] - d[0]) / (n - 1)
            las.curves[0].data = d
        elif k == "index_irregular":
            d = las.curves[0].data.astype(float).copy()
            d[-1] = d[-1] + float(e[1])
            las.curves[0].data = d
        elif k in ("setdata_drop_top", "data_assign_stride", "setdata_df"):
            # the index changes through the whole-table routes; the last sample (and so STOP) stays what it was
            if n < 3 or any(np.asarray(c.data).dtype.kind != "f" for c in las.curves):
                continue
            if k == "setdata_drop_top":
                las.set_data(las.data[min(int(e[1]), n - 2):])
            elif k == "data_assign_stride":
                sel = list(range(n - 1, -1, -2))[::-1]  # every second row, the last one kept
                las.data = las.data[sel]
            else:
                if any(":" in str(k) for k in las.keys()):
                    # the frame's column names (session names such as GR:1) become the curves' own names: a mnemonic
                    # with a colon is outside the header grammar, the output could not be judged by re-reading it
                    continue
                df = las.df()
                las.set_data_from_df(df.iloc[min(int(e[1]), n - 2):])
        elif k == "curve_set" and len(las.curves) > 1:
            c = las.curves[1 + int(e[1]) % (len(las.curves) - 1)]
            if np.asarray(c.data).dtype.kind == "f":
                d = c.data.copy()
                d[int(e[2]) % n] = float(e[3])
                c.data = d
            else:
                continue
        elif k == "header_set":
            sec = las.sections["Parameter"] if e[1] == "P" else las.sections["Well"]
            cand = [i for i in sec if i.original_mnemonic.upper() not in ("STRT", "STOP", "STEP", "NULL")]
            if not cand:
                continue
            cand[int(e[2]) % len(cand)].value = e[3]
        else:
            continue
        kinds.add(k)
    return kinds


def oracle(case):
    out = Outcome()
    src = case["src"]
    opts = dict(case.get("opts", {}))
    if "column_fmt" in opts:
        opts["column_fmt"] = {int(k): v for k, v in opts["column_fmt"].items()}  # JSON replays carry string keys
    rk = dict(case.get("read_kw", {}))
    nwrites = case.get("writes", 2)
    las = inputs.load(src, **rk)
    out.cls("src-" + inputs.kind(src))
    out.sample = dict(src=src if "file" in src else inputs.kind(src), opts=opts, edits=case.get("edits", []), writes=nwrites)
    if is_raised(las):
        out.rejected = True
        out.cls("unreadable")
        return out
    was_read = "desc" not in src
    if len(las.curves) and np.asarray(las.curves[0].data).dtype.kind != "f":
        out.rejected = True
        out.cls("text-index")
        return out
    idx_loaded = np.array(las.curves[0].data, dtype=float, copy=True) if len(las.curves) else np.array([])
    # rounds: edits applied before each write (a plain case is one round of edits followed by edit-free writes)
    rounds = case.get("rounds")
    if rounds is None:
        rounds = [case.get("edits", [])] + [[] for _ in range(nwrites - 1)]
    stop_disagrees = False
    if was_read and len(idx_loaded):
        try:
            stop_disagrees = float(las.well["STOP"].value) != float(idx_loaded[-1])
        except Exception:  # noqa
            stop_disagrees = True
    before0 = snapshot(las)
    vers_before = [x for x in before0["sections"].get("Version", []) if x["orig"].upper() == "VERS"]
    wrap_given = opts.get("wrap") is not None
    index_ever_edited = not was_read
    all_kinds = set()
    prev_text = None
    INDEX_EDITS = {"index_shift", "index_reverse", "index_truncate", "index_irregular", "index_inplace", "index_interior",
                   "setdata_drop_top", "data_assign_stride", "setdata_df"}
    for n, edits in enumerate(rounds):
        idx_before = np.array(las.curves[0].data, dtype=float, copy=True) if len(las.curves) else np.array([])
        kinds = apply_edits(las, edits)
        all_kinds |= kinds
        idx = np.asarray(las.curves[0].data, dtype=float) if len(las.curves) else np.array([])
        if kinds & INDEX_EDITS and not (len(idx) == len(idx_before) and np.array_equal(idx, idx_before)):
            index_ever_edited = True
        before = snapshot(las)
        t = attempt(build.write_text, las, **opts)
        if is_raised(t):
            if n == 0:
                out.rejected = True
                out.cls("unwritable:" + t.type)
                return out
            out.fail("later-write-raises|" + t.bucket, "write #%d raised %s after a successful first write\nopts=%r" % (n + 1, t, opts))
            return out
        after = snapshot(las)
        compare_snapshots(before, after, wrap_given, out, "first-write" if n == 0 else "later-write")
        if n > 0 and not kinds:
            # nothing was edited since the previous write: same bytes, and no in-memory change at all
            if after != before:
                out.fail("repeat-write-changes-memory", "write #%d changed the object again\nopts=%r" % (n + 1, opts))
            if t != prev_text:
                out.fail("repeat-write-text-differs", "write #%d produced different text than write #%d\nopts=%r\n--- previous ---\n%s\n--- now ---\n%s"
                         % (n + 1, n, opts, prev_text[:1500], t[:1500]))
        prev_text = t
        if out.violations:
            break
        # truthfulness of STRT/STOP/STEP in this output
        if len(idx) and (index_ever_edited or stop_disagrees):
            back = read_text(t, mnemonic_case="preserve")
            if is_raised(back):
                out.rejected = True  # readability of the output is C01/C03/C11's business
                out.cls("output-unreadable")
                return out
            w = {i.original_mnemonic.upper(): i for i in back.well}
            why = ("index-created" if not was_read else "index-edited" if index_ever_edited else "stop-disagreed") + ("" if n == 0 else "|later-write")

            # "to format precision": the stated value may follow the index as held in memory or as the numeric
            # format printed it (the re-read index); anything between the two, +- half a unit of the 5th decimal
            widx = idx
            try:
                bi = np.asarray(back.curves[0].data, dtype=float)
                if bi.shape == idx.shape and not np.isnan(bi).any():
                    widx = bi
            except (TypeError, ValueError, IndexError):
                pass

            # ... and never finer than the index format itself resolves: half a unit of the last digit it prints
            # for a value, a whole unit for an increment (a %.6e index near 1e6 is written to the nearest 1)
            from checks.c01 import token_unit

            fmt0 = (opts.get("column_fmt") or {}).get(0, opts.get("fmt", "%.5f"))
            try:
                res = max(float(token_unit(fmt0 % x)) for x in (idx[0], idx[-1], idx[min(1, len(idx) - 1)]))
            except (TypeError, ValueError, OverflowError):
                res = 0.0

            def close(v, target, wtarget=None, units=0.5):
                try:
                    v = float(v)
                except (TypeError, ValueError):
                    return False
                wtarget = target if wtarget is None else wtarget
                tol = 0.5e-5 + units * res + 1e-9 * max(abs(target), abs(wtarget)) + 1e-12
                return min(target, wtarget) - tol <= v <= max(target, wtarget) + tol

            ctx = "write #%d, opts=%r, rounds=%r\n%s" % (n + 1, opts, rounds, t[:1200])
            if "STRT" in w and not close(w["STRT"].value, idx[0], widx[0]):
                out.fail("STRT-untruthful|" + why, "output STRT=%r but the first index value is %r\n%s" % (w["STRT"].value, idx[0], ctx))
            if "STOP" in w and not close(w["STOP"].value, idx[-1], widx[-1]):
                out.fail("STOP-untruthful|" + why, "output STOP=%r but the last index value is %r\n%s" % (w["STOP"].value, idx[-1], ctx))
            if "STEP" in w:
                blank_or_zero = w["STEP"].value in ("", 0) or close(w["STEP"].value, 0.0)
                if len(idx) > 1:
                    ok = close(w["STEP"].value, idx[1] - idx[0], widx[1] - widx[0], units=1.0)
                    if not ok and idx[0] == idx[-1]:
                        # an index that returns to its first value: lasio may also treat it like a single sample (no STEP)
                        ok = blank_or_zero
                    if not ok:
                        out.fail("STEP-untruthful|" + why, "output STEP=%r but the first increment is %r\n%s" % (w["STEP"].value, idx[1] - idx[0], ctx))
                elif not blank_or_zero:
                    out.fail("STEP-untruthful|single-sample", "single sample but STEP=%r" % (w["STEP"].value,))
            cu = back.curves[0].unit if len(back.curves) else None
            for m in ("STRT", "STOP", "STEP"):
                if m in w and cu is not None and w[m].unit != cu:
                    out.fail("unit-not-aligned|" + why, "output %s unit %r, index curve unit %r\n%s" % (m, w[m].unit, cu, t[:1200]))
        if out.violations:
            break
    idx = np.asarray(las.curves[0].data, dtype=float) if len(las.curves) else np.array([])
    out.cls(*["edit-" + k for k in sorted(all_kinds)])
    if len(rounds) > 1 and any(rounds[1:]):
        out.cls("edits-between-writes")
    shape = "empty" if len(idx) == 0 else "single" if len(idx) == 1 else (
        "increasing" if np.all(np.diff(idx) > 0) else "decreasing" if np.all(np.diff(idx) < 0) else "irregular")
    out.cls("index-" + shape)
    out.nontrivial = bool(all_kinds) or shape not in ("increasing",)
    if not out.violations:
        vers_after = [x for x in snapshot(las)["sections"].get("Version", []) if x["orig"].upper() == "VERS"]
        if vers_before != vers_after:
            out.fail("in-memory-VERS-changed", "version=%r changed the in-memory VERS item %r -> %r" % (opts.get("version"), vers_before, vers_after))
    return out


EDIT = st.one_of(
    st.tuples(st.just("index_shift"), st.sampled_from([0.5, -3.0, 100.0, 0.000001])),
    st.tuples(st.just("index_reverse")),
    st.tuples(st.just("index_inplace"), st.sampled_from([0.25, 1.0, -0.5])),
    st.tuples(st.just("index_inplace"), st.sampled_from([0.25, 1.0, -0.5])),
    st.tuples(st.just("index_truncate"), st.integers(1, 3)),
    st.tuples(st.just("index_interior"), st.sampled_from([0.25, -0.125, 0.4])),
    st.tuples(st.just("setdata_drop_top"), st.integers(1, 3)),
    st.tuples(st.just("data_assign_stride")),
    st.tuples(st.just("setdata_df"), st.integers(1, 2)),
    st.tuples(st.just("index_irregular"), st.sampled_from([0.25, -0.1, 7.0])),
    st.tuples(st.just("curve_set"), st.integers(0, 5), st.integers(0, 9), st.sampled_from([1.5, -42.0, 0.0])),
    st.tuples(st.just("header_set"), st.sampled_from(["W", "P"]), st.integers(0, 9), st.sampled_from(["edited", 17, 2.5, "", " padded ", "GEL CHEM  ", "  200"])),
).map(list)


@st.composite
def opts_with_index_format(draw):
    """Writer options; 1 in 4 with a format of its own for the index column (finer or coarser than fmt): what the header
    states must follow the index as THAT format writes it."""
    o = dict(draw(inputs.WRITER_OPTS))
    if draw(st.integers(0, 3)) == 0:
        o["column_fmt"] = {"0": draw(st.sampled_from(["%.7f", "%.1f", "%.3f", "%.6e"]))}
    return o


OPTS = opts_with_index_format()


def corpus_cases(tier):
    optsets = [{}, {"version": 1.2, "wrap": True}, {"version": 2, "wrap": False, "fmt": "%.3f"}]
    editsets = [[], [["index_shift", 0.5]], [["index_reverse"]], [["index_inplace", 0.25]], [["curve_set", 0, 1, 1.5], ["header_set", "W", 0, "edited"]],
                [["index_truncate", 2]], [["setdata_drop_top", 1]], [["data_assign_stride"]], [["index_interior", 0.25]]]
    for f in inputs.corpus_files():
        for o in optsets:
            for e in editsets:
                yield {"src": {"file": f}, "opts": o, "edits": e, "writes": 2, "read_kw": {}}


@st.composite
def built_cases(draw):
    desc = draw(inputs.descs())
    n = len(desc["curves"][0][4])
    kind = draw(st.sampled_from(["inc", "dec", "irr", "const", "uneven"]))
    start = draw(st.sampled_from([0.0, 100.5, -20.0, 1670.0, 1e6]))
    step = draw(st.sampled_from([0.5, 0.125, 1.0, 0.1524, 10.0]))
    if kind == "inc":
        idx = [start + i * step for i in range(n)]
    elif kind == "dec":
        idx = [start - i * step for i in range(n)]
    elif kind == "irr":
        idx = [start + ((-1) ** i) * i * step for i in range(n)]
    elif kind == "const":
        idx = [start for _ in range(n)]
    else:
        idx = [start + i * step + (0.01 * i * i) for i in range(n)]
    desc["curves"][0][4] = [fenc(x) for x in idx]
    for row in desc["well"]:
        if row[0].upper() in ("STRT", "STOP", "STEP", "NULL", "VERS", "WRAP", "DLM"):
            row[0] = row[0] + "X"
    return {"src": {"desc": desc}, "opts": draw(OPTS), "edits": draw(st.lists(EDIT, max_size=2)),
            "writes": draw(st.integers(1, 3)), "read_kw": {}}


@st.composite
def read_cases(draw):
    """Read from a generated text: STOP consistent or not with the data; then optional edits."""
    c = draw(st.integers(1, 4))
    r = draw(st.integers(1, 6))
    start = draw(st.sampled_from([0.0, 100.5, 1670.0]))
    step = draw(st.sampled_from([0.5, -0.125, 1.0]))
    idx = [start + i * step for i in range(r)]
    rows = [["%.4f" % idx[i]] + ["%d.%d" % (i + 1, j) for j in range(1, c)] for i in range(r)]
    stop = idx[-1] if draw(st.booleans()) else idx[-1] + draw(st.sampled_from([1.0, -5.0, 0.0001]))
    spec = lastext.simple_spec([("C%d" % j, "M" if j == 0 else "", "", "") for j in range(c)], rows,
                               vers=draw(st.sampled_from(["1.2", "2.0"])))
    w = spec["sections"][1]["lines"]
    w[0]["v"], w[1]["v"], w[2]["v"] = "%.4f" % idx[0], "%.4f" % stop, "%.4f" % step
    w[0]["u"] = w[1]["u"] = w[2]["u"] = draw(st.sampled_from(["M", "FT", "m", ""]))
    if lastext.is_12(lastext.spec_version(spec)):
        pass
    case = {"src": {"spec": spec}, "opts": draw(OPTS), "edits": draw(st.lists(EDIT, max_size=2)),
            "writes": draw(st.integers(1, 3)), "read_kw": {"mnemonic_case": draw(st.sampled_from(["upper", "preserve", "lower"]))}}
    if draw(st.integers(0, 2)) == 0:
        # edit - write - edit (possibly undoing the first edit) - write ...
        d = draw(st.sampled_from([0.25, 1.0, -0.5]))
        undo = draw(st.sampled_from([[["index_inplace", d]], [["index_shift", d]], [["index_irregular", d]]]))
        redo = [[e[0], -e[1]] for e in undo]
        case["rounds"] = draw(st.sampled_from([[undo, redo], [undo, [], redo], [undo, redo, []], [[], undo, redo]]))
    return case


def parts(tier):
    return [
        Enum("example-corpus", corpus_cases),
        Hyp("built-from-scratch", built_cases, quick=3000, thorough=40000),
        Hyp("read-then-edited", read_cases, quick=3000, thorough=40000),
    ]
