"""C17 - pickle and deepcopy reproduce a LASFile exactly, duplicates included; the copy is independent."""
import copy
import hashlib
import io
import pickle
import warnings

import numpy as np
from hypothesis import strategies as st

from vlib import lasbuild as LB
from vlib.api import Enum, Hyp, Outcome, attempt, is_raised

# numpy/pandas/openpyxl warnings raised inside lasio calls (overflow in STEP, empty input) are not the subject here
warnings.filterwarnings("ignore")

ID = "C17"
LEVEL = "exploration"
METHODS = ["pickle0", "pickle1", "pickle2", "pickle3", "pickle4", "pickle5", "deepcopy"]
RULE = ("case = (LASFile description or corpus file, copy methods out of pickle protocols 0..5 and copy.deepcopy, "
        "write() options). Generated LASFiles are built through the public API (HeaderItem/section.append, "
        "append_curve, section value assignment) with repeated, case-variant and blank mnemonics forced in ~V, ~W, "
        "~P, ~C and custom sections (with and without the case-insensitive mnemonic_transforms flag), python and "
        "numpy int/float, NaN and text header values, float64 and str curves, 0..6 rows; every example file under "
        "tests/examples is taken with every method. Each method is applied to the LASFile, to every SectionItems "
        "and to every single item; the copy's snapshot (section names/kinds, mnemonic_transforms, per item: class, "
        "session and original mnemonic, unit, value with its type, descr, data dtype/shape/bytes; index_unit) must "
        "equal the original's, copying must leave the original unchanged, write() of original and of copy (same "
        "options) must give identical text, and mutating the copy in four steps (item fields, samples in place, "
        "appends, deletions) must leave the original's snapshot unchanged. Non-trivial: some section holds a "
        "session mnemonic that differs from the original one (':n' suffix or UNKNOWN).")
ASSUMPTIONS = [
    "observable state = what the statement lists (sections, items, curve arrays and dtypes, index_unit, write() text) "
    "plus the sections' mnemonic_transforms flag, which decides how later lookups compare mnemonics",
    "when the ORIGINAL cannot be written (text index curve, duplicated STRT/NULL, ...) the write comparison is skipped "
    "and the input counted in class 'original-unwritable'; a copy that cannot be written when the original can is a "
    "violation",
    "generated mnemonics contain no ':' (session numbering of originals that already look numbered is C13's subject)",
    "value types are compared by exact class (float vs numpy.float64 ...); NaN compares equal to NaN",
]

MAX_ITEM_TARGETS = 40


# ----------------------------------------------------------------------------------------------
# snapshots


def akey(a):
    a = np.asarray(a)
    if a.dtype.kind in "fiubc":
        payload = hashlib.blake2b(np.ascontiguousarray(a).tobytes(), digest_size=12).hexdigest()
        if a.size <= 8:
            payload += " " + repr(a.tolist())
    else:
        payload = repr(a.tolist())
    return ("ndarray", a.dtype.str, tuple(a.shape), payload)


def vkey(v):
    if isinstance(v, np.ndarray):
        return akey(v)
    t = type(v)
    return ("%s.%s" % (t.__module__, t.__name__), repr(v))


def item_snap(it):
    return dict(cls=type(it).__name__, sess=it.mnemonic, orig=it.original_mnemonic, unit=vkey(it.unit),
                value=vkey(it.value), descr=vkey(it.descr), data=vkey(getattr(it, "data", "<no data attribute>")))


def section_snap(sec):
    if isinstance(sec, str):
        return dict(kind="text", text=sec)
    return dict(kind="items", cls=type(sec).__name__,
                transforms=vkey(getattr(sec, "mnemonic_transforms", "<missing>")),
                items=[item_snap(i) for i in list.__iter__(sec)])


def las_snap(las):
    return dict(cls=type(las).__name__, names=list(las.sections.keys()),
                sections={k: section_snap(v) for k, v in las.sections.items()},
                index_unit=vkey(las.index_unit))


FIELD_BUCKET = dict(cls="item-class-changed", sess="session-mnemonic-changed", orig="original-mnemonic-changed",
                    unit="unit-changed", value="value-changed", descr="descr-changed", data="curve-data-changed")


def item_diff(a, b, where):
    out = []
    for f in ("cls", "orig", "sess", "unit", "value", "descr", "data"):
        if a[f] != b[f]:
            name = FIELD_BUCKET[f]
            if f == "value" and a[f][0] != b[f][0]:
                name = "value-type-changed"
            if f == "data" and a[f][0] == "ndarray" and b[f][0] == "ndarray" and a[f][1] != b[f][1]:
                name = "curve-dtype-changed"
            out.append((name, "%s %s: original %r, copy %r" % (where, f, a[f], b[f])))
    return out


def section_diff(a, b, where):
    if a["kind"] != b["kind"]:
        return [("section-kind-changed", "%s: %s vs %s" % (where, a["kind"], b["kind"]))]
    if a["kind"] == "text":
        if a["text"] != b["text"]:
            return [("section-text-changed", "%s: %r vs %r" % (where, a["text"], b["text"]))]
        return []
    out = []
    if a["cls"] != b["cls"]:
        out.append(("section-class-changed", "%s: %s vs %s" % (where, a["cls"], b["cls"])))
    if a["transforms"] != b["transforms"]:
        out.append(("mnemonic-transforms-changed", "%s: original %r, copy %r" % (where, a["transforms"], b["transforms"])))
    if len(a["items"]) != len(b["items"]):
        out.append(("item-count-changed", "%s: %d items vs %d: %r vs %r" % (
            where, len(a["items"]), len(b["items"]), [i["sess"] for i in a["items"]], [i["sess"] for i in b["items"]])))
        return out
    for k, (x, y) in enumerate(zip(a["items"], b["items"])):
        out.extend(item_diff(x, y, "%s[%d] (original mnemonic %r, session %r)" % (where, k, x["orig"], x["sess"])))
    return out


def las_diff(a, b):
    out = []
    if a["cls"] != b["cls"]:
        out.append(("lasfile-class-changed", "%s vs %s" % (a["cls"], b["cls"])))
    if a["names"] != b["names"]:
        out.append(("section-names-changed", "%r vs %r" % (a["names"], b["names"])))
    for name in a["names"]:
        if name in b["sections"]:
            out.extend(section_diff(a["sections"][name], b["sections"][name], "section %r" % name))
    if a["index_unit"] != b["index_unit"]:
        out.append(("index-unit-changed", "original %r, copy %r" % (a["index_unit"], b["index_unit"])))
    return out


# ----------------------------------------------------------------------------------------------
# copying and mutating


def do_copy(obj, method):
    if method == "deepcopy":
        return copy.deepcopy(obj)
    proto = int(method[len("pickle"):])
    return pickle.loads(pickle.dumps(obj, protocol=proto))


def mclass(method):
    return "deepcopy" if method == "deepcopy" else "pickle"


def write_text(las, wopts):
    s = io.StringIO()
    las.write(s, **wopts)
    return s.getvalue()


def mutate_item(it):
    it.value = "MUTATED-VALUE"
    it.unit = "MUT"
    it.descr = "mutated descr"
    d = getattr(it, "data", None)
    if isinstance(d, np.ndarray) and d.size:
        if d.dtype.kind == "f":
            d[...] = 424242.5
        else:
            d[...] = "Z"
    it.mnemonic = "RENAMED"


def mutation_steps(b):
    """(label, function) pairs, each mutating the copied LASFile a bit more."""
    import lasio

    def items_step():
        for sec in b.sections.values():
            if not isinstance(sec, str):
                for it in list.__iter__(sec):
                    it.value = "MUTATED-VALUE"
                    it.unit = "MUT"
                    it.descr = "mutated descr"
                    it.mnemonic = "RENAMED"
        b.index_unit = "mutated-unit"

    def samples_step():
        for c in list.__iter__(b.curves):
            d = c.data
            if isinstance(d, np.ndarray) and d.size:
                if d.dtype.kind == "f":
                    d[...] = 424242.5
                else:
                    d[...] = "Z"

    def append_step():
        n = len(b.curves[0].data) if len(b.curves) else 2
        b.append_curve("NEWCURVE", np.arange(n, dtype=float), unit="u", descr="appended")
        for name, sec in list(b.sections.items()):
            if isinstance(sec, str):
                b.sections[name] = sec + "\nappended text"
            elif name != "Curves":
                sec.append(lasio.HeaderItem("NEWITEM", "u", 1, "appended"))
        b.sections["NEWSECTION"] = "new"

    def delete_step():
        for sec in b.sections.values():
            if not isinstance(sec, str) and len(sec):
                list.pop(sec, 0)
        b.sections.pop("Other", None)

    return [("item-fields", items_step), ("samples-in-place", samples_step), ("append", append_step),
            ("delete", delete_step)]


# ----------------------------------------------------------------------------------------------
# oracle


def fresh(case):
    if case["src"] == "corpus":
        return attempt(LB.read_corpus, case["file"])
    return LB.build(case["las"])


def check_method(case, method, a, out, label):
    """All C17 obligations for one copy method on the fresh original `a`."""
    mc = mclass(method)
    wopts = dict(case.get("wopts") or {})
    snap = las_snap(a)

    def fail(bucket, msg, item=False):
        out.fail("%s|%s%s" % (bucket, mc, "|item" if item else ""), "%s via %s\n%s\n%s" % (bucket, method, msg, label))

    def original_untouched(why):
        now = las_snap(a)
        if now != snap:
            d = las_diff(snap, now)
            fail("not-independent|" + why, "the ORIGINAL changed after %s on the copy:\n%s" % (
                why, "\n".join(t for _, t in d[:8]) or "(section names or kinds differ)"))
            return False
        return True

    # ---- whole LASFile
    b = attempt(do_copy, a, method)
    b2 = attempt(do_copy, a, method)
    if is_raised(b) or is_raised(b2):
        r = b if is_raised(b) else b2
        fail("raises|%s|lasfile" % r.bucket, "copying the LASFile raised %s" % r.text)
        return
    if las_snap(a) != snap:
        fail("original-mutated-by-copy", "the original changed while being copied:\n%s" % "\n".join(
            t for _, t in las_diff(snap, las_snap(a))[:8]))
        return
    sb = attempt(las_snap, b)
    content_equal = False
    if is_raised(sb):
        fail("raises|%s|inspect-copy" % sb.bucket, "reading the copy's content raised %s" % sb.text)
    else:
        diffs = las_diff(snap, sb)
        content_equal = not diffs
        seen = set()
        for bucket, text in diffs:
            if bucket not in seen:
                seen.add(bucket)
                fail(bucket, "LASFile copy differs (%d differences):\n%s" % (
                    len(diffs), "\n".join(t for bk, t in diffs if bk == bucket)[:1500]))
    # ---- independence (b is mutated step by step, a must stay put)
    for why, fn in mutation_steps(b):
        r = attempt(fn)
        if is_raised(r):
            out.cls("mutation-step-raised:" + why)
        if not original_untouched(why + "|lasfile"):
            return
    # ---- write(): original vs the second, untouched copy
    ta = attempt(write_text, a, wopts)
    if is_raised(ta):
        out.cls("original-unwritable:" + ta.type)
    else:
        tb = attempt(write_text, b2, wopts)
        if is_raised(tb):
            fail("write-raises-on-copy|%s" % tb.bucket, "write(%r) works on the original, the copy raises %s" % (wopts, tb.text))
        elif ta != tb:
            la, lb = ta.split("\n"), tb.split("\n")
            k = next((i for i, (x, y) in enumerate(zip(la, lb)) if x != y), min(len(la), len(lb)))
            msg = "write(%r) text differs from line %d:\n original: %r\n copy    : %r" % (
                wopts, k + 1, la[k:k + 3], lb[k:k + 3])
            if content_equal:
                fail("write-text-differs", msg)
            else:
                out.cls("write-text-differs-with-content-difference")
                # same root cause as the content difference already reported; keep the text in that record
                if out.violations:
                    bk, m = out.violations[-1]
                    out.violations[-1] = (bk, (m + "\n" + msg)[:4000])
    # a has been written: STRT/STOP/STEP may have been refreshed, so start the remaining targets afresh
    a = fresh(case)
    if is_raised(a):
        return
    snap = las_snap(a)

    # ---- each section
    for name, sec in a.sections.items():
        if isinstance(sec, str):
            continue
        c = attempt(do_copy, sec, method)
        if is_raised(c):
            fail("raises|%s|section" % c.bucket, "copying section %r raised %s" % (name, c.text))
            continue
        sc = attempt(section_snap, c)
        if is_raised(sc):
            fail("raises|%s|inspect-copy" % sc.bucket, "reading the copied section %r raised %s" % (name, sc.text))
            continue
        diffs = section_diff(snap["sections"][name], sc, "copied section %r" % name)
        seen = set()
        for bucket, text in diffs:
            if bucket not in seen:
                seen.add(bucket)
                fail(bucket, "\n".join(t for bk, t in diffs if bk == bucket)[:1500])

        def mut(c=c):
            import lasio

            for it in list.__iter__(c):
                mutate_item(it)
            c.append(lasio.HeaderItem("NEWITEM", "u", 1, "appended"))
            list.pop(c, 0)
            c.mnemonic_transforms = not getattr(c, "mnemonic_transforms", False)

        if is_raised(attempt(mut)):
            out.cls("mutation-step-raised:section")
    if not original_untouched("mutating-section-copy"):
        return

    # ---- single items
    for name, sec in a.sections.items():
        if isinstance(sec, str):
            continue
        for k, it in enumerate(list.__iter__(sec)):
            if k >= MAX_ITEM_TARGETS:
                break
            c = attempt(do_copy, it, method)
            if is_raised(c):
                fail("raises|%s|item" % c.bucket, "copying item %r of %r raised %s" % (it.mnemonic, name, c.text), item=True)
                continue
            sc = attempt(item_snap, c)
            if is_raised(sc):
                fail("raises|%s|inspect-copy" % sc.bucket, "reading the copied item raised %s" % sc.text, item=True)
                continue
            for bucket, text in item_diff(snap["sections"][name]["items"][k], sc,
                                          "copied single item %s[%d]" % (name, k)):
                fail(bucket, text, item=True)
            if is_raised(attempt(mutate_item, c)):
                out.cls("mutation-step-raised:item")
    original_untouched("mutating-item-copy")


def oracle(case):
    out = Outcome()
    a = fresh(case)
    if is_raised(a):
        out.rejected = True
        out.cls("rejected:" + a.bucket)
        return out
    if case["src"] == "corpus":
        label = "corpus file %s" % case["file"]
        out.cls("corpus", *LB.las_classes(a))
    else:
        label = LB.summary(case["las"])
        out.cls("generated", *LB.desc_classes(case["las"]))
    dis = LB.disambiguated(a)
    out.nontrivial = bool(dis)
    secs = sorted({d[0] if d[0] in LB.STD else "custom" for d in dis})
    out.cls(*["disambiguated-in-" + s for s in secs])
    if any(d[2].startswith("UNKNOWN") for d in dis):
        out.cls("blank-mnemonic")
    out.sample = dict(input=label[:600], methods=case["methods"], wopts=case.get("wopts"),
                      disambiguated=[list(d) for d in dis[:6]])
    first = True
    for method in case["methods"]:
        if not first:
            a = fresh(case)
            if is_raised(a):
                break
        first = False
        out.cls("method-" + method)
        check_method(case, method, a, out, label)
    return out


# ----------------------------------------------------------------------------------------------
# parts

WOPTS = st.sampled_from([{}, {}, {}, {"version": 1.2}, {"version": 2}, {"wrap": True}, {"fmt": "%.3f"},
                         {"mnemonics_header": True}, {"version": 1.2, "wrap": False, "data_section_header": "~A"}])


@st.composite
def generated(draw):
    desc = draw(LB.las_desc(inf=False, p_text=4, p_empty=1, drops=True, extra_kinds=("i", "n", "o")))
    k = LB.roll(draw, 10)
    if k <= 6:
        methods = list(METHODS)
    else:
        methods = sorted(draw(st.sets(st.sampled_from(METHODS), min_size=1, max_size=3)), key=METHODS.index)
    return dict(src="gen", las=desc, methods=methods, wopts=draw(WOPTS))


def corpus_cases(tier):
    for rel in LB.corpus_files():
        for m in METHODS:
            yield dict(src="corpus", file=rel, methods=[m], wopts={})
    if tier == "thorough":
        for rel in LB.corpus_files():
            for w in ({"version": 1.2}, {"version": 2, "wrap": True}):
                for m in ("pickle2", "pickle5", "deepcopy"):
                    yield dict(src="corpus", file=rel, methods=[m], wopts=w)


def fixed_cases(tier):
    """Hand-picked shapes that must always be visited (smallest forms of each collision kind)."""
    shapes = [
        dict(curves=[["DEPT", "m", ["s", ""], "", "f", ["1.0", "2.0"]], ["GR", "", ["s", ""], "", "f", ["5.0", "nan"]],
                     ["GR", "", ["s", ""], "", "f", ["6.0", "7.0"]]]),
        dict(well=[["GR", "", ["i", 1], "a"], ["GR", "", ["I", 2], "b"]], curves=[]),
        dict(params=[["", "", ["f", "nan"], "blank"], [" ", "u", ["s", "x"], "blank too"]], curves=[]),
        dict(version=[["DLM", "", ["s", "COMMA"], "again"]], curves=[["D", "", ["s", ""], "", "f", ["1.0"]]]),
        dict(transforms=["Parameter", "Curves"], params=[["bht", "", ["F", "35.5"], ""], ["BHT", "", ["F", "36.5"], ""]],
             curves=[["dept", "m", ["s", ""], "", "f", ["1.0", "2.0"]], ["DEPT", "m", ["s", ""], "", "f", ["1.0", "2.0"]]]),
        dict(curves=[["DEPT", "m", ["s", ""], "", "f", ["1.0", "2.0"]], ["LITH", "", ["s", ""], "", "s", ["SAND", "SHALE"]],
                     ["LITH", "", ["s", ""], "", "s", ["a", ""]]]),
        dict(custom=[["Tops", [["TOP", "m", ["f", "10.5"], "a"], ["TOP", "m", ["f", "20.5"], "b"]]]],
             customtext=[["Notes", "free text"]], curves=[["DEPT", "m", ["s", ""], "", "f", ["1.0"]]]),
        dict(curves=[]),
        dict(curves=[["DEPT", "FT", ["s", ""], "", "f", ["1.0", "2.0"]]], index_unit="FT"),
    ]
    for s in shapes:
        yield dict(src="gen", las=s, methods=list(METHODS), wopts={})


def parts(tier):
    return [
        Enum("fixed-shapes x all methods", fixed_cases),
        Enum("corpus x method", corpus_cases),
        Hyp("generated-lasfiles", generated, quick=900, thorough=20000),
    ]
