"""C06 - exactly the NULL-valued samples of non-index curves become NaN."""
import math

import numpy as np
from hypothesis import strategies as st

from vlib import build, lastext
from vlib.api import Enum, Hyp, Outcome, attempt, fdec, fenc, is_raised
from vlib.filecheck import read_text, spec_summary

ID = "C06"
LEVEL = "exploration"
RULE = ("read side: NULL from {-999.25, -9999.25, -999, 0, 999.25, 1e30, 2147483647} with header and cell spellings "
        "{plain, extra zeros, exponent, '+', '.0'}; cells are NULL-equal, nextafter neighbours of NULL, NULL +- 1e-k, or "
        "ordinary, in every column including the index; optional text column holding the NULL spelling; engines "
        "{numpy, normal}; null_policy {strict, none}; wrapped/unwrapped. Oracle: under strict isnan(cell) <=> column "
        "is numeric and not the index and float(token) == float(NULL), every other cell == float(token), text cells "
        "keep their token; under 'none' nothing is changed. Write side: LASFile with NaN at non-index cells and any "
        "NULL value -> write -> read: NaN positions == original NaN positions plus finite cells that print as NULL. "
        "Non-trivial: >= 1 NULL-equal cell in a non-index column and (a NULL-equal cell in the index or a "
        "near-NULL cell).")
ASSUMPTIONS = [
    "data tokens are plain decimal spellings; text-column cells are tokens without blanks or quotes",
    "write side uses formats whose output for the chosen samples can be read back (see C01 for the format domain)",
]

NULLS = ["-999.25", "-9999.25", "-999", "0", "999.25", "1e30", "2147483647"]


def spellings(x):
    """Different decimal spellings of the float x (all parse back to exactly x)."""
    x = float(x)
    outs = [repr(x)]
    if x == int(x) and abs(x) < 1e15:
        outs += ["%d" % x, "%d.0" % x, "%d.000" % x]
    else:
        r = repr(x)
        if "e" not in r:
            outs += [r + "00", r + "0"]
    outs.append("%.17e" % x)
    outs.append(("%.17E" % x))
    if x >= 0:
        outs += ["+" + o for o in list(outs)]
    good = []
    for o in outs:
        if float(o) == x and o not in good:
            good.append(o)
    return good


def near(x, k):
    x = float(x)
    if k == "up":
        return float(np.nextafter(x, np.inf))
    if k == "down":
        return float(np.nextafter(x, -np.inf))
    d = 10.0 ** (-int(k))
    y = x + d
    return y if y != x else float(np.nextafter(x, np.inf))


def oracle(case):
    if case.get("side") == "write":
        return oracle_write(case)
    out = Outcome()
    null = float(case["null"])
    rows = case["rows"]  # list of list of tokens
    c = len(rows[0])
    textcol = case.get("textcol")
    declared = case.get("declared", c)  # unwrapped files may declare fewer curves than there are columns
    curves = [("C%d" % j, "", "", "") for j in range(declared)]
    prows = rows
    if case.get("wrap"):
        prows = []
        for r in rows:
            prows.append(r[:1])
            rest = r[1:]
            for k in range(0, len(rest), case["wrap"]):
                prows.append(rest[k:k + case["wrap"]])
    hdr_null = case["null_text"]
    if case.get("null_hdr_comma"):
        # the header states the marker with a decimal comma (header values take ',' as the mark); it is the same number
        hdr_null = hdr_null.replace(".", ",")
        out.cls("header-null-with-decimal-comma")
    spec = lastext.simple_spec(curves, prows, wrap="YES" if case.get("wrap") else "NO", null=hdr_null, dlm=case.get("dlm"))
    spec["sections"][-1]["ncols"] = c
    if case.get("runon"):
        # fixed-width columns: a negative value (the NULL, say) runs into the value before it: 1670.000-999.250-999.250
        for ln in spec["sections"][-1]["lines"]:
            ln["seps"] = ["" if t.startswith("-") else " " for t in ln["toks"][1:]]
    if case.get("dlm") == "COMMA":
        for ln in spec["sections"][-1]["lines"]:
            ln["seps"] = [","] * max(0, len(ln["toks"]) - 1)  # no blank after the comma
        out.cls("dlm-COMMA")
    if case.get("later_null"):
        # an item called NULL in a later header section is just an item: only ~Well's NULL says what the marker is
        kind, val = case["later_null"]
        title = "~Parameter" if kind == "P" else "~Tool Settings"
        spec["sections"].insert(len(spec["sections"]) - 1, lastext.section(kind, title, [
            lastext.item("BHT", "DEGC", "35.5", "temp"), lastext.item("NULL", "", val, "not the marker")]))
        out.cls("null-item-in-later-section")
    from vlib import strategies as S_
    S_.apply_scaffold(spec, case.get("scaffold"))
    text = lastext.render(spec)
    policy = case["policy"]
    rkw = {}
    if case.get("keep_engine"):
        # the documented way to keep the fast engine for any policy
        rkw["use_normal_engine_for_wrapped"] = False
        out.cls("use_normal_engine_for_wrapped=False")
    if case.get("runon"):
        rkw["accept_regexp_sub_recommendations"] = False
        out.cls("run-on-negatives")
    if case.get("read_policy") is not None:
        # no regexp fixes wanted: the NULL policy is another matter and still applies
        rkw["read_policy"] = tuple(case["read_policy"])
        out.cls("read_policy-empty")
    las = read_text(text, engine=case["engine"], null_policy=policy, mnemonic_case=case.get("mnemonic_case", "upper"), **rkw)
    out.cls("mc-" + case.get("mnemonic_case", "upper"))
    if declared != c:
        out.cls("undeclared-columns")
    out.cls("policy-" + policy, "engine-" + case["engine"], "wrapped" if case.get("wrap") else "unwrapped",
            "null=" + case["null"], "textcol" if textcol is not None else "numeric-only")
    n_eq_nonindex = sum(1 for r in rows for j, t in enumerate(r) if j != 0 and j != textcol and float(t) == null)
    n_eq_index = sum(1 for r in rows if float(r[0]) == null)
    n_near = sum(1 for r in rows for j, t in enumerate(r) if j != textcol and float(t) != null and
                 abs(float(t) - null) <= max(1e-3, abs(null) * 1e-9))
    out.nontrivial = n_eq_nonindex >= 1 and (n_eq_index >= 1 or n_near >= 1)
    out.sample = dict(null=case["null_text"], policy=policy, engine=case["engine"], rows=rows[:4])
    if is_raised(las):
        out.fail("read-raises|" + las.bucket, "%s\n%s" % (las, text))
        return out
    if len(las.curves) != c or any(len(cv.data) != len(rows) for cv in las.curves):
        out.fail("shape", "expected %d curves x %d rows, got %r\n%s" % (c, len(rows), [len(cv.data) for cv in las.curves], text))
        return out
    positional = list(las.curves)
    for j in range(c):
        col = positional[j].data
        for i in range(len(rows)):
            tok = rows[i][j]
            got = col[i]
            if j == textcol:
                if not (isinstance(got, str) and str(got) == tok):
                    out.fail("text-column-touched|" + policy, "text column cell (%d,%d): token %r read as %r\n%s" % (i, j, tok, got, text))
                continue
            x = float(tok)
            want_nan = policy == "strict" and j != 0 and x == null
            try:
                g = float(got)
            except (TypeError, ValueError):
                out.fail("numeric-cell-not-float", "cell (%d,%d) token %r read as %r\n%s" % (i, j, tok, got, text))
                continue
            if want_nan:
                if not math.isnan(g):
                    out.fail("null-not-replaced|%s|%s" % ("wrapped" if case.get("wrap") else "unwrapped", case["engine"]),
                             "cell (%d,%d) token %r equals NULL %r but was read as %r\n%s" % (i, j, tok, case["null_text"], got, text))
            else:
                if math.isnan(g):
                    why = "index" if j == 0 else ("policy-none" if policy == "none" else "near-null" if x != null else "?")
                    out.fail("spurious-nan|" + why, "cell (%d,%d) token %r must stay %r (NULL %r, policy %s), read as NaN\n%s"
                             % (i, j, tok, x, case["null_text"], policy, text))
                elif g != x:
                    out.fail("cell-value", "cell (%d,%d) token %r read as %r\n%s" % (i, j, tok, got, text))
    return out


@st.composite
def read_cases(draw):
    null = draw(st.sampled_from(NULLS))
    nullx = float(null)
    null_text = draw(st.sampled_from(spellings(nullx)))
    c = draw(st.integers(1, 5))
    r = draw(st.integers(1, 6))
    textcol = None
    if c >= 2 and draw(st.integers(0, 4)) == 0:
        textcol = draw(st.integers(1, c - 1))

    def cell(j):
        k = draw(st.integers(0, 9))
        if k <= 2:
            return draw(st.sampled_from(spellings(nullx)))
        if k <= 4:
            y = near(nullx, draw(st.sampled_from(["up", "down", "1", "3", "6", "9", "12"])))
            return repr(y)
        if k == 5:
            return repr(-nullx) if nullx != 0 else "1"
        return draw(st.sampled_from(["1", "2.5", "-3.75", "100", "0.001", "12345.678", "1e5", "-1E-3", "0", "999", "-999"]))

    rows = []
    for i in range(r):
        row = []
        for j in range(c):
            if j == textcol:
                # first row decides the dtype of the column: a non-numeric token there
                if i == 0:
                    row.append(draw(st.sampled_from(["abc", "LIME", "x-1", "N/A"])))
                else:
                    row.append(draw(st.sampled_from(["abc", "SAND", str(np.float64(nullx)), "q"])))
            else:
                row.append(cell(j))
        rows.append(row)
    policy = draw(st.sampled_from(["strict", "strict", "none"]))
    wrap = draw(st.sampled_from([0, 0, 1, 2, 3])) if c >= 2 else 0
    case = dict(side="read", null=null, null_text=null_text, rows=rows, textcol=textcol, policy=policy,
                engine=draw(st.sampled_from(["numpy", "normal"])), wrap=wrap)
    if null_text.count(".") == 1 and draw(st.integers(0, 5)) == 0:
        case["null_hdr_comma"] = True
    if not wrap and draw(st.integers(0, 3)) == 0:
        case["declared"] = draw(st.integers(0, c))
    if not wrap and draw(st.integers(0, 4)) == 0:
        case["dlm"] = "COMMA"
    elif draw(st.integers(0, 6)) == 0:
        case["read_policy"] = []
    elif not wrap and textcol is None and draw(st.integers(0, 4)) == 0:
        case["keep_engine"] = True
    elif not wrap and textcol is None and nullx < 0 and draw(st.integers(0, 3)) == 0:
        # every row carries the (negative) NULL glued to its neighbour
        for rw in rows:
            if len(rw) >= 2:
                rw[-1] = null_text
        if all(not t.startswith("-") or "e-" not in t.lower() for rw in rows for t in rw) and all("E-" not in t and "e-" not in t for rw in rows for t in rw):
            case["runon"] = True
    from vlib import strategies as S_
    case["scaffold"] = draw(S_.scaffold())
    case["mnemonic_case"] = draw(st.sampled_from(["upper", "upper", "lower", "preserve"]))
    if draw(st.integers(0, 3)) == 0:
        # its value is one that occurs in the data (and differs from the real NULL)
        others = sorted({t for rw in rows for j, t in enumerate(rw) if j != textcol and float(t) != nullx})
        if others:
            case["later_null"] = [draw(st.sampled_from(["P", "X"])), draw(st.sampled_from(others))]
    return case


def read_grid(tier):
    """Every NULL x every spelling pair (header, cell) x column {index, other} x engine x policy, single cell of interest."""
    for null in NULLS:
        sp = spellings(float(null))
        for hs in sp:
            for cs in sp:
                for engine in ("numpy", "normal"):
                    for policy in ("strict", "none"):
                        up = repr(near(float(null), "up"))
                        rows = [[cs, cs, "1"], ["2", up, cs], ["3", "4", "5"]]
                        yield dict(side="read", null=null, null_text=hs, rows=rows, textcol=None, policy=policy, engine=engine, wrap=0)


# ---------------------------------------------------------------------------------------
# write side


def oracle_write(case):
    out = Outcome()
    nullspec = case["nullspec"]
    cols = case["cols"]  # list of list of float-text cells ("nan" allowed off the index)
    desc = {"null": nullspec, "curves": [["C%d" % j, "", "", "", col] for j, col in enumerate(cols)]}
    tcol = case.get("textcol")
    if tcol:
        # a text curve next to the numeric ones: NaN must still be written as the NULL value
        desc["curves"].append(["LITH", "", "", "", list(tcol), "s"])
    las = attempt(build.build_las, desc)
    if is_raised(las):
        out.fail("build-raises|" + las.bucket, str(las))
        return out
    for j in case.get("object_cols", []):
        # numeric samples held in an object array (what set_data_from_df leaves behind next to a text curve): the
        # NaN there is the Python float; it is a NaN all the same
        if j < len(las.curves):
            las.curves[j].data = np.array([float(x) for x in las.curves[j].data], dtype=object)
            out.cls("object-dtype-numeric-curve")
    if case.get("dlm_in_object"):
        # the object of a tab-/comma-delimited file; its NaN positions survive the cycle like any other's
        las.version["DLM"].value = case["dlm_in_object"]
        out.cls("dlm-in-object-" + case["dlm_in_object"])
    opts = dict(case["opts"])
    if "column_fmt" in opts:
        opts["column_fmt"] = {int(k): v for k, v in opts["column_fmt"].items()}
    text = attempt(build.write_text, las, **opts)
    nullv = build.val(nullspec)
    out.cls("write", "null=%r" % (nullv,), "wrap" if opts.get("wrap") else "nowrap", "v%s" % opts.get("version"))
    nan_cells = sum(1 for col in cols[1:] for x in col if x == "nan")
    out.nontrivial = nan_cells >= 1
    out.sample = dict(null=nullspec, cols=cols, opts=opts)
    if is_raised(text):
        out.fail("write-raises|" + text.bucket, "%s\n%r" % (text, case))
        return out
    fmt = opts.get("fmt", "%.5f")
    # the written text itself: every NaN is emitted as the current NULL value
    lines = text.split("\n")
    start = max(i for i, ln in enumerate(lines) if ln.startswith("~A"))
    toks = " ".join(lines[start + 1:]).split()
    c, r = len(cols) + (1 if tcol else 0), len(cols[0])
    if tcol:
        out.cls("write-with-text-curve")
    if len(toks) != c * r:
        out.fail("written-token-count", "expected %d data tokens, found %d\n%s" % (c * r, len(toks), text))
        return out
    for i in range(r):
        for j in range(len(cols)):
            if cols[j][i] == "nan":
                tok = toks[i * c + j]
                try:
                    ok = float(tok) == float(nullv)
                except ValueError:
                    ok = False
                if not ok:
                    out.fail("nan-not-written-as-null", "NaN cell (%d,%d) written as %r, NULL is %r\n%s" % (i, j, tok, nullv, text))
    for engine in ("numpy", "normal"):
        back = read_text(text, engine=engine)
        if is_raised(back):
            out.fail("reread-raises|" + back.bucket, "%s\n%s" % (back, text))
            return out
        if len(back.curves) != c or any(len(cv.data) != len(cols[0]) for cv in back.curves):
            out.fail("write-shape|" + engine, "expected %d curves x %d rows, got %r\n%s" % (
                c, len(cols[0]), [len(cv.data) for cv in back.curves], text))
            return out
        for j, col in enumerate(cols):
            for i, cell in enumerate(col):
                x = fdec(cell)
                try:
                    got = float(list(back.curves)[j].data[i])
                except (TypeError, ValueError):
                    out.fail("numeric-cell-not-float|write|" + engine, "cell (%d,%d)=%s came back as %r\n%s" % (i, j, cell, list(back.curves)[j].data[i], text))
                    continue
                fj = opts.get("column_fmt", {}).get(j, fmt)
                prints_as_null = (not math.isnan(x)) and not math.isinf(x) and float(fj % x) == float(nullv)
                want_nan = j != 0 and (math.isnan(x) or prints_as_null)
                if want_nan and not math.isnan(got):
                    out.fail("nan-lost-on-roundtrip|" + engine, "cell (%d,%d)=%s came back as %r (NULL %r)\n%s" % (i, j, cell, got, nullv, text))
                if not want_nan and math.isnan(got):
                    out.fail("nan-gained-on-roundtrip|" + engine, "cell (%d,%d)=%s came back as NaN (NULL %r)\n%s" % (i, j, cell, nullv, text))
    return out


NULLSPECS = [["f", "-999.25"], ["f", "-9999.25"], ["i", -999], ["i", 0], ["f", "999.25"], ["f", "1e+30"], ["i", 2147483647],
             ["nf", "-999.25"], ["ni", -9999], ["s", "-999.25"], ["f", "-0.5"]]


@st.composite
def write_cases(draw):
    nullspec = draw(st.sampled_from(NULLSPECS))
    nullx = float(build.val(nullspec))
    c = draw(st.integers(1, 6))
    r = draw(st.integers(1, 5))
    cols = []
    for j in range(c):
        col = []
        for i in range(r):
            if j == 0:
                col.append(fenc(float(i + 1)))
            else:
                k = draw(st.integers(0, 5))
                if k <= 1:
                    col.append("nan")
                elif k == 2:
                    col.append(fenc(nullx))
                elif k == 3:
                    col.append(fenc(near(nullx, draw(st.sampled_from(["up", "3", "6"])))))
                elif k == 4 and draw(st.integers(0, 3)) == 0:
                    col.append(draw(st.sampled_from(["inf", "-inf"])))  # not NaN: must not come back as NaN
                else:
                    col.append(fenc(draw(st.sampled_from([1.0, -2.5, 1000.125, 0.0, 7e5]))))
        cols.append(col)
    opts = dict(version=draw(st.sampled_from([1.2, 2])), wrap=draw(st.booleans()),
                fmt=draw(st.sampled_from(["%.5f", "%.3f", "%.10g", "%.2f", "%+.3f", "%.4E", "%.6G", "%.2F", "% .3f"])))
    if draw(st.integers(0, 4)) == 0 and c >= 2:
        opts["column_fmt"] = {str(draw(st.integers(1, c - 1))): draw(st.sampled_from(["%+.2f", "%.3E", "%.1f"]))}
    case = dict(side="write", nullspec=nullspec, cols=cols, opts=opts)
    if draw(st.integers(0, 3)) == 0:
        case["textcol"] = [draw(st.sampled_from(["SAND", "LIME", "x1", "N/A"])) for _ in range(r)]
    if draw(st.integers(0, 4)) == 0:
        case["dlm_in_object"] = draw(st.sampled_from(["TAB", "COMMA"]))
    if c >= 2 and draw(st.integers(0, 3)) == 0:
        case["object_cols"] = sorted(set(draw(st.lists(st.integers(1, c - 1), min_size=1, max_size=2))))
    return case


def parts(tier):
    return [
        Enum("null-spelling-grid", read_grid),
        Hyp("read-side", read_cases, quick=8000, thorough=80000),
        Hyp("write-side", write_cases, quick=3000, thorough=30000),
    ]
