"""C15 - section lookup by key, attribute, membership and get() always agree."""
from vlib import secmodel as sm
from vlib.api import Enum, Outcome, attempt, is_raised
from vlib.models import same

ID = "C15"
LEVEL = "exploration"
RULE = ("case = {fl, ci, ops, probe}: a section state and one probe key. States: every distinct section (order, "
        "original and session mnemonic of each item) that lasio reaches by <= 4 (thorough <= 5) operations of "
        "{append, insert@{0,mid,end}, del by index, del section[key], section[key]=item, replace_curve_item} over "
        "names {A, a, b, '', '1', 'A:1', GR, _S} (and <= 3 operations over {U+00B5 micro sign, A}) x mnemonic_transforms {off,on} x flavour {bare SectionItems of HeaderItems, "
        "~Curves of a LASFile}; found by breadth-first search that runs lasio and keeps the first (shortest) history "
        "per state. Probes per state: each session name present, 'ZZ' and '' (absent), the other-case spelling of each "
        "present name, names with a blank before/after, '1' and '0', ints {0, 1, -1, n, -n-1}, slices {0:2, :, -2:, ::-1}; for "
        "case-normalised states the string probes are repeated on a copy.copy / deepcopy / pickle copy of the section. The reference is computed "
        "by the check from the observed item list and session names: match(k) = first position whose session "
        "mnemonic equals k (ignoring case iff mnemonic_transforms). Every mutating sub-check runs on its own rebuild "
        "of the state. Non-trivial: section of >= 2 items and the probe is not a key that matches only the first "
        "item.")
ASSUMPTIONS = [
    "the session mnemonics a lookup has to honour are the ones the items carry (item.mnemonic, equal to keys()); "
    "how they were assigned is C13's subject",
    "'ignoring case' is str.upper() equality; names are ASCII plus the micro sign U+00B5, whose upper case is a Greek letter "
    "that does not fold back to it (only that `in`, item access, attribute access and get() agree on one reading is judged)",
    "getattr is only asked for keys that are identifiers and do not name an attribute of list / SectionItems",
    "for absent string keys only what the statement names is required: `in` False, KeyError from s[k] and del s[k], "
    "get() leaving the section alone, get(add=True) appending exactly one item (session names of other items may "
    "legitimately be renumbered by that append); `s[absent] = value` is not judged",
    "slices are judged for read access only; out-of-range ints must raise IndexError from s[i] and del s[i] as a "
    "list does",
    "s[i] = HeaderItem for an int i in range is judged as positional replacement ('integer keys address positions "
    "exactly as in a list'; __setitem__ documents key as 'either the mnemonic or the index')",
]

NAMES = ["A", "a", "b", "", "1", "A:1", "GR", "_S"]
NAMES_NONASCII = ["\u00b5", "A"]  # explored to 3 operations only
PLAIN = "plain value"

_STATES = {}


def signature(section):
    return tuple((it.original_mnemonic, it.mnemonic) for it in list.__iter__(section))


def reachable_states(tier):
    """[(flavour, ci, ops, session names)] - one shortest history per distinct reachable state."""
    if tier in _STATES:
        return _STATES[tier]
    depth = 4 if tier == "quick" else 5
    res = []
    for fl in ("header", "curves", "file-params"):
        for ci in (False, True):
            seen = {(): True}
            frontier = [([], [])]
            res.append((fl, ci, [], []))
            levels = depth if fl != "file-params" else depth - 1  # reading a file per case is slow
            for level in range(levels + 3):
                if level == levels:
                    frontier = [([], [])]  # second search from the empty section: the small non-ASCII alphabet, 3 operations
                names = NAMES if level < levels else NAMES_NONASCII
                nxt = []
                for ops, keys in frontier:
                    for op in sm.applicable_ops(keys, names, rci=(fl == "curves")):
                        d = attempt(sm.build, fl, ci, ops + [op])
                        if is_raised(d):
                            continue
                        sig = signature(d.section)
                        if sig in seen:
                            continue
                        seen[sig] = True
                        k2 = [s for _, s in sig]
                        res.append((fl, ci, ops + [op], k2))
                        nxt.append((ops + [op], k2))
                frontier = nxt
    _STATES[tier] = res
    return res


def probes_for(keys):
    n = len(keys)
    out = []
    variants = []
    for k in keys:
        for v in (k.swapcase(), k.capitalize(), k.lower(), k.upper()):
            if v != k:
                variants.append(v)
    # keys with blanks around a name are other keys (no lookup strips them)
    padded = [k + " " for k in keys[:2] if k.strip()] + [" " + k for k in keys[-1:] if k.strip()]
    strs = sm.distinct(list(keys) + ["ZZ", ""] + variants + ["1", "0"] + padded)
    for k in strs:
        out.append(["str", k])
    for i in sm.distinct([0, 1, -1, n, -n - 1]):
        out.append(["int", i])
    for sl in ([0, 2, None], [None, None, None], [-2, None, None], [None, None, -1]):
        out.append(["slice"] + sl)
    return out


def cases(tier):
    n = 0
    for fl, ci, ops, keys in reachable_states(tier):
        for p in probes_for(keys):
            yield {"fl": fl, "ci": ci, "ops": ops, "probe": p}
            if ci and p[0] == "str" and keys:
                # the same section after a copy: it is still "a section that was read with case normalisation"
                n += 1
                yield {"fl": fl, "ci": ci, "ops": ops, "probe": p, "copy": ("deepcopy", "pickle", "copy")[n % 3]}


# ------------------------------------------------------------------------------------------


class State(object):
    """A fresh build of the case's section plus a snapshot taken before the probe."""

    def __init__(self, case):
        self.d = sm.build(case["fl"], bool(case["ci"]), case["ops"])
        if case.get("copy"):
            import copy
            import pickle

            how = case["copy"]
            sec = self.d.section
            dup = copy.deepcopy(sec) if how == "deepcopy" else pickle.loads(pickle.dumps(sec)) if how == "pickle" else copy.copy(sec)
            if self.d.las is not None:
                self.d.las.sections["Curves"] = dup
                self.d.section = self.d.las.curves
            else:
                self.d.section = dup
        self.s = self.d.section
        self.items = self.d.items()
        self.keys = [it.mnemonic for it in self.items]
        self.values = [it.value for it in self.items]
        # contents of the items as well (unit, value, description, curve samples): "never changes the section"
        self.content = [self._content(it) for it in self.items]

    @staticmethod
    def _content(it):
        import numpy as np

        data = getattr(it, "data", None)
        d = None if data is None else (str(np.asarray(data).dtype), np.asarray(data).tobytes() if np.asarray(data).dtype.kind != "O" else repr(list(data)))
        return (it.original_mnemonic, repr(it.unit), repr(it.value), repr(it.descr), d)

    def unchanged(self):
        now = self.d.items()
        return (len(now) == len(self.items) and all(a is b for a, b in zip(now, self.items))
                and [it.mnemonic for it in now] == self.keys and self.s.keys() == self.keys
                and [self._content(it) for it in now] == self.content)

    def show(self):
        return sm.render(self.d.items())


def match(keys, k, ci):
    for i, x in enumerate(keys):
        if same(x, k, ci):
            return i
    return None


def same_items(got, exp):
    return len(got) == len(exp) and all(a is b for a, b in zip(got, exp))


def oracle(case):
    out = Outcome()
    ci = bool(case["ci"])
    probe = case["probe"]
    out.sample = case
    st = attempt(State, case)
    if is_raised(st):
        out.rejected = True
        out.cls("state-build-raised:" + st.bucket)
        return out
    n = len(st.items)
    kobs = attempt(st.s.keys)
    if is_raised(kobs) or kobs != st.keys:
        out.fail("keys-not-item-mnemonics", "keys() %r, item mnemonics %r" % (kobs, st.keys))
        return out
    out.cls(case["fl"], "ci" if ci else "cs", "n=%d" % n, "probe-" + probe[0])
    if case.get("copy"):
        out.cls("after-" + case["copy"])
    if probe[0] == "str":
        judge_str(out, case, st, probe[1], ci)
    elif probe[0] == "int":
        judge_int(out, case, st, probe[1], ci)
    else:
        judge_slice(out, case, st, slice(probe[1], probe[2], probe[3]), ci)
    return out


def fresh(case):
    return State(case)


def judge_str(out, case, st, k, ci):
    keys = st.keys
    n = len(keys)
    m = match(keys, k, ci)
    nmatch = sum(1 for x in keys if same(x, k, ci))
    if k in keys:
        kc = "present"
    elif m is not None:
        kc = "other-case"
    elif k.isdigit():
        kc = "int-like"
    elif any(x.upper() == k.upper() for x in keys):
        kc = "other-case-absent"
    else:
        kc = "absent"
    out.cls("key-" + kc, "duplicate-session-names" if nmatch > 1 else None)
    out.nontrivial = n >= 2 and not (kc == "present" and m == 0 and nmatch == 1)
    ctx = "key %r (%s), ci=%s, section %r" % (k, kc, ci, st.show())
    s = st.s

    # --- membership, item access, attribute access (read only)
    r = attempt(lambda: k in s)
    if is_raised(r):
        out.fail("contains-raised|%s|%s" % (kc, r.type), "%r in s raised %s; %s" % (k, r, ctx))
    elif bool(r) != (m is not None):
        out.fail("contains-wrong|%s" % kc, "(%r in s) is %r but %s; %s"
                 % (k, r, "no session mnemonic matches" if m is None else "item %d matches" % m, ctx))
    g = attempt(s.__getitem__, k)
    if m is None:
        if not (is_raised(g) and g.type == "KeyError"):
            out.fail("missing-key-not-KeyError|getitem|%s" % kc, "s[%r] gave %r, expected KeyError; %s" % (k, g, ctx))
    elif is_raised(g):
        out.fail("getitem-raised|%s|%s" % (kc, g.type), "s[%r] raised %s, item %d matches; %s" % (k, g, m, ctx))
    elif g is not st.items[m]:
        out.fail("getitem-not-first-match|%s" % kc, "s[%r] is %r, expected item %d; %s" % (k, g, m, ctx))
    if not is_raised(r) and bool(r) != (not is_raised(g)):
        out.fail("contains-disagrees-with-getitem|%s" % kc, "(%r in s) is %r, s[%r] -> %r; %s" % (k, r, k, g, ctx))
    if m is not None and sm.attr_key(k):
        a = attempt(getattr, s, k)
        if is_raised(a):
            out.fail("getattr-raised|%s|%s" % (kc, a.type), "s.%s raised %s, item %d matches; %s" % (k, a, m, ctx))
        elif a is not st.items[m]:
            out.fail("getattr-differs|%s" % kc, "s.%s is %r, expected item %d; %s" % (k, a, m, ctx))
    if not st.unchanged():
        out.fail("read-access-changed-section|%s" % kc, "after in/[]/getattr: %r; %s" % (st.show(), ctx))
        return

    # --- the FIRST match, also after an earlier item has been renamed to the key between two lookups
    if m is not None and m >= 1 and k.strip():
        st = fresh(case)
        attempt(st.s.__getitem__, k)  # a lookup before the rename (anything remembered from it is stale afterwards)
        st.items[0].mnemonic = k
        for how, g2 in (("getitem", attempt(st.s.__getitem__, k)), ("get", attempt(st.s.get, k))):
            if is_raised(g2) or g2 is not st.items[0]:
                out.fail("lookup-after-rename-not-first-match|%s" % how, "after a lookup of %r and `items[0].mnemonic = %r`, s.%s(%r) is %r, "
                         "expected item 0; %s" % (k, k, how, k, g2, ctx))

    # --- get() without add
    st = fresh(case)
    r = attempt(st.s.get, k)
    if is_raised(r):
        out.fail("get-raised|%s|%s" % (kc, r.type), "s.get(%r) raised %s; %s" % (k, r, ctx))
    elif m is not None and r is not st.items[m]:
        out.fail("get-not-first-match|%s" % kc, "s.get(%r) is %r, expected item %d; %s" % (k, r, m, ctx))
    elif m is None and any(r is it for it in st.items):
        out.fail("get-returned-member-for-missing-key|%s" % kc, "s.get(%r) is %r; %s" % (k, r, ctx))
    if not st.unchanged():
        out.fail("get-changed-section|%s" % kc, "after s.get(%r): %r; %s" % (k, st.show(), ctx))

    # --- get(add=True)
    st = fresh(case)
    r = attempt(st.s.get, k, add=True)
    now = st.d.items()
    if is_raised(r):
        out.fail("get-add-raised|%s|%s" % (kc, r.type), "s.get(%r, add=True) raised %s; %s" % (k, r, ctx))
    elif m is not None:
        if r is not st.items[m]:
            out.fail("get-add-not-first-match|%s" % kc, "s.get(%r, add=True) is %r, expected item %d; %s" % (k, r, m, ctx))
        if not st.unchanged():
            out.fail("get-add-changed-section-when-present|%s" % kc,
                     "after s.get(%r, add=True): %r; %s" % (k, st.show(), ctx))
    else:
        if not (len(now) == n + 1 and same_items(now[:n], st.items) and now[n] is r):
            out.fail("get-add-not-exactly-one-append|%s" % kc,
                     "after s.get(%r, add=True) -> %r: %r; %s" % (k, r, st.show(), ctx))

    # --- get() with a default that is an item of the section itself (s.get("TDD", default=s["TD"]))
    if m is None and n >= 1 and k.strip():
        for add in (False, True):
            st = fresh(case)
            dflt = st.items[0]
            r = attempt(st.s.get, k, default=dflt, add=add)
            now = st.d.items()
            if is_raised(r):
                out.fail("get-default-item-raised|%s|%s" % (kc, r.type), "s.get(%r, default=<item 0>, add=%r) raised %s; %s" % (k, add, r, ctx))
            elif not add and not st.unchanged():
                out.fail("get-changed-section|default-is-member", "after s.get(%r, default=<item 0>): %r; %s" % (k, st.show(), ctx))
            elif add and not (len(now) == n + 1 and same_items(now[:n], st.items) and now[n] is r and r is not dflt
                              and [it.original_mnemonic for it in now[:n]] == [c[0] for c in st.content]):
                out.fail("get-add-not-exactly-one-append|default-is-member",
                         "after s.get(%r, default=<item 0>, add=True) -> %r: %r; %s" % (k, r, st.show(), ctx))

    # --- s[k] = plain value
    if m is not None:
        st = fresh(case)
        r = attempt(st.s.__setitem__, k, PLAIN)
        now = st.d.items()
        if is_raised(r):
            out.fail("value-assign-raised|%s|%s" % (kc, r.type), "s[%r] = value raised %s; %s" % (k, r, ctx))
        elif not same_items(now, st.items) or [it.mnemonic for it in now] != st.keys:
            out.fail("value-assign-changed-section|%s" % kc, "after s[%r] = value: %r; %s" % (k, st.show(), ctx))
        else:
            vals = [it.value for it in now]
            exp = list(st.values)
            exp[m] = PLAIN
            if vals != exp:
                out.fail("value-assign-wrong-item|%s" % kc, "values after s[%r] = value: %r, expected %r; %s"
                         % (k, vals, exp, ctx))
    else:
        out.cls("value-assign-to-missing-key-not-judged")

    # --- del s[k]
    st = fresh(case)
    r = attempt(st.s.__delitem__, k)
    now = st.d.items()
    if m is None:
        if not (is_raised(r) and r.type == "KeyError"):
            out.fail("missing-key-not-KeyError|delitem|%s" % kc, "del s[%r] gave %r, expected KeyError; %s" % (k, r, ctx))
        if not st.unchanged():
            out.fail("failed-del-changed-section|%s" % kc, "after del s[%r]: %r; %s" % (k, st.show(), ctx))
    elif is_raised(r):
        out.fail("del-key-raised|%s|%s" % (kc, r.type), "del s[%r] raised %s, item %d matches; %s" % (k, r, m, ctx))
    elif not same_items(now, st.items[:m] + st.items[m + 1:]):
        out.fail("del-key-wrong-item|%s" % kc, "after del s[%r]: %r, expected removal of item %d; %s"
                 % (k, st.show(), m, ctx))


def judge_int(out, case, st, i, ci):
    import lasio

    n = len(st.items)
    inr = -n <= i < n
    kc = "int-in-range" if inr else "int-out-of-range"
    out.cls("key-" + kc, "int-negative" if i < 0 else None)
    out.nontrivial = n >= 2
    ctx = "key %r (%s), ci=%s, section %r" % (i, kc, ci, st.show())
    ref = list(st.items)

    g = attempt(st.s.__getitem__, i)
    if inr:
        if is_raised(g) or g is not ref[i]:
            out.fail("int-getitem-not-positional", "s[%d] -> %r, a list gives item %d; %s" % (i, g, i % n, ctx))
    elif not (is_raised(g) and g.type == "IndexError"):
        out.fail("int-getitem-out-of-range-not-IndexError", "s[%d] -> %r; %s" % (i, g, ctx))
    if not st.unchanged():
        out.fail("read-access-changed-section|%s" % kc, "after s[%d]: %r; %s" % (i, st.show(), ctx))
        return

    st = fresh(case)
    r = attempt(st.s.__delitem__, i)
    now = st.d.items()
    if inr:
        exp = list(st.items)
        del exp[i]
        if is_raised(r) or not same_items(now, exp):
            out.fail("int-del-not-positional", "del s[%d] -> %r, section now %r; %s" % (i, r, st.show(), ctx))
    else:
        if not (is_raised(r) and r.type == "IndexError"):
            out.fail("int-del-out-of-range-not-IndexError", "del s[%d] -> %r; %s" % (i, r, ctx))
        if not st.unchanged():
            out.fail("failed-del-changed-section|%s" % kc, "after del s[%d]: %r; %s" % (i, st.show(), ctx))

    if inr:
        # the same item OBJECT at two positions (the move idiom: insert it where it should go, delete the old position):
        # an integer addresses the position, not the first occurrence of the object found there
        st = fresh(case)
        before = list(st.items)
        r0 = attempt(st.s.append, before[i])
        if not is_raised(r0) and same_items(st.d.items(), before + [before[i]]):
            out.cls("item-object-held-twice")
            last = n if i >= 0 else -1
            r = attempt(st.s.__delitem__, last)
            if is_raised(r) or not same_items(st.d.items(), before):
                out.fail("int-del-not-positional|item-object-held-twice",
                         "section %r with item %d appended once more, then del s[%d] -> %r: section now %r, a list drops "
                         "the last position; %s" % (sm.render(before), i % n, last, r, st.show(), ctx))

        st = fresh(case)
        r = attempt(st.s.__setitem__, i, PLAIN)
        now = st.d.items()
        exp = list(st.values)
        exp[i] = PLAIN
        if is_raised(r) or not same_items(now, st.items) or [it.value for it in now] != exp \
                or [it.mnemonic for it in now] != st.keys:
            out.fail("int-value-assign-not-positional", "s[%d] = value -> %r; values now %r, expected %r; section %r; %s"
                     % (i, r, [it.value for it in now], exp, st.show(), ctx))

        st = fresh(case)
        new = st.d.new_item("b")
        r = attempt(st.s.__setitem__, i, new)
        now = st.d.items()
        exp = list(st.items)
        exp[i] = new
        if is_raised(r) or not same_items(now, exp):
            out.fail("int-item-assign-not-positional", "s[%d] = item -> %r; section now %r, a list would hold the new "
                     "item at position %d and keep its length; %s" % (i, r, st.show(), i % n, ctx))


def judge_slice(out, case, st, sl, ci):
    n = len(st.items)
    out.cls("key-slice")
    out.nontrivial = n >= 2
    ctx = "key %r, ci=%s, section %r" % (sl, ci, st.show())
    exp = list(st.items)[sl]
    g = attempt(st.s.__getitem__, sl)
    if is_raised(g):
        out.fail("slice-getitem-raised|%s" % g.type, "s[%r] raised %s; %s" % (sl, g, ctx))
    else:
        got = list(list.__iter__(g)) if isinstance(g, list) else None
        if got is None or not same_items(got, exp):
            out.fail("slice-getitem-differs", "s[%r] -> %r, a list gives positions %r; %s"
                     % (sl, g, list(range(n))[sl], ctx))
    if not st.unchanged():
        out.fail("read-access-changed-section|slice", "after s[%r]: %r; %s" % (sl, st.show(), ctx))


def parts(tier):
    reachable_states(tier)  # computed once in the parent; forked workers inherit the memo
    return [Enum("reachable-states x probes", cases)]
