"""C02 - numpy and normal data engines return identical curves."""
import numpy as np
from hypothesis import strategies as st

from vlib import canon, lastext, strategies as S
from vlib.api import Hyp, Enum, Outcome, attempt, is_raised
from vlib.filecheck import read_text, spec_summary

ID = "C02"
LEVEL = "exploration"
RULE = ("case = FileSpec with an r x c data section of plain decimal tokens (int, fixed, exponent, signed, '+5', "
        "'.5', '5.', NULL), blank/tab separators and padding, blank and '#' lines at any position (first and last "
        "line of the section included), ~A last or followed by ~P/~O/custom sections, LF/CRLF, with/without final "
        "newline, declared curves == or != c; one case in eight carries a character that only str.splitlines() treats as a "
        "line break (FF, VT, FS, GS, RS, NEL, U+2028/9) inside a ~Well description. Oracle: differential - engine='numpy' vs engine='normal': same curve "
        "count and lengths, bit-identical non-NaN samples, same NaN positions, same header content; one engine "
        "raising while the other succeeds is a violation. A wrapper around the numpy engine entry point records "
        "whether the fast path produced the data. Non-trivial: fast path produced the data AND the layout has a "
        "noise line, a trailing section, CRLF, no final newline, a single row or a single column.")
ASSUMPTIONS = [
    "data tokens are plain decimal spellings that none of the default read substitutions can rewrite; '#' occurs only "
    "as a whole-line comment",
    "both engines raising is counted as a rejected input, not a violation",
]


def build(case):
    c = case["c"]
    curves = [("C%d" % k, "", "", "") for k in range(case["d"])]
    spec = lastext.simple_spec(curves, [], nl=case["nl"], final_nl=case["final_nl"], dlm=case.get("dlm"))
    if case.get("hdr_char"):
        # a character that str.splitlines() (but no file iteration) treats as a line break, inside a header description:
        # both engines address the data section of the same file and must find the same first row
        for sec in spec["sections"]:
            if sec["kind"] == "W":
                sec["lines"].append(lastext.item("RMK", "", "", "page" + case["hdr_char"] + "break"))
    if case.get("wrap_spelling") is not None:
        # "one depth step per line": every spelling of the WRAP value other than YES
        for ln in spec["sections"][0]["lines"]:
            if ln.get("m") == "WRAP":
                ln["v"] = case["wrap_spelling"]
    a = spec["sections"][-1]
    a["ncols"] = c
    a["title"] = case.get("atitle", "~ASCII")
    if case.get("scaffold", {}).get("titles", {}).get("A"):
        case = dict(case, scaffold=dict(case["scaffold"], titles={k: v for k, v in case["scaffold"]["titles"].items() if k != "A"}))
    lines = []
    for rw in case["rows"]:
        lines.append({"t": "row", "toks": rw["toks"], "lead": rw["lead"], "seps": rw["seps"], "trail": rw["trail"]})
    for pos, text in sorted(case["noise"], key=lambda x: -x[0]):
        kind = "comment" if text.strip().startswith("#") else "blank"
        if case.get("comment_char"):
            text = text.replace("#", case["comment_char"])  # the file's data comments use the character the caller names
        lines.insert(min(pos, len(lines)), {"t": kind, "text": text})
    a["lines"] = lines
    for t in case["after"]:
        if t == "P":
            spec["sections"].append(lastext.section("P", "~Parameter", [lastext.item("BHT", "DEGC", "35.5", "temp"),
                                                                         lastext.item("MUD", "", "GEL", "mud")]))
        elif t == "O":
            spec["sections"].append(lastext.section("O", "~Other", [{"t": "text", "text": "note 1 2 3"},
                                                                     {"t": "text", "text": "4 5 6"}]))
        elif t == "X":
            spec["sections"].append(lastext.section("X", "~Tops", [lastext.item("TOPA", "M", "12.5", "top a")]))
        elif t in ("PD", "XD"):
            # an item called DLM in a section that does not steer parsing (only ~Version's does)
            spec["sections"].append(lastext.section(t[0], "~Parameter" if t == "PD" else "~Tool Settings", [
                lastext.item("BHT", "DEGC", "35.5", "temp"), lastext.item("DLM", "", "TAB" if c % 2 else "COMMA", "display delimiter")]))
        elif t == "E":
            spec["sections"].append(lastext.section("P", "~Parameter", []))
        elif t.startswith("OL"):
            # a long ~Other section (more lines than the header in front of ~A)
            n = int(t[2:])
            spec["sections"].append(lastext.section("O", "~Other", [{"t": "text", "text": "remark line %d" % i} for i in range(n)]))
        elif t.startswith("PL"):
            n = int(t[2:])
            spec["sections"].append(lastext.section("P", "~Parameter", [lastext.item("P%d" % i, "", str(i), "parameter %d" % i) for i in range(n)]))
    return S.apply_scaffold(spec, case.get("scaffold"))


class Trace(object):
    """Records what the numpy engine entry point did during one read (no change to lasio's source)."""

    def __init__(self):
        self.events = []

    def __enter__(self):
        import lasio.reader as R

        self.R = R
        self.orig = R.read_data_section_iterative_numpy_engine
        tr = self

        def wrapper(*args, **kwargs):  # whatever arguments lasio passes to its engine
            try:
                arr = tr.orig(*args, **kwargs)
            except Exception as e:  # noqa
                tr.events.append(("raised", type(e).__name__))
                raise
            tr.events.append(("returned", getattr(arr, "shape", None)))
            return arr

        R.read_data_section_iterative_numpy_engine = wrapper
        return self

    def __exit__(self, *a):
        self.R.read_data_section_iterative_numpy_engine = self.orig

    @property
    def fast(self):
        return any(e[0] == "returned" for e in self.events)


def bits_equal(a, b):
    a = np.asarray(a)
    b = np.asarray(b)
    if a.shape != b.shape:
        return "shape %r vs %r" % (a.shape, b.shape)
    if a.dtype.kind != "f" or b.dtype.kind != "f":
        if a.dtype.kind != b.dtype.kind:
            return "dtype %s vs %s" % (a.dtype, b.dtype)
        return None if list(map(str, a)) == list(map(str, b)) else "text cells differ"
    na, nb = np.isnan(a), np.isnan(b)
    if not np.array_equal(na, nb):
        return "NaN positions differ: %r vs %r" % (na.tolist(), nb.tolist())
    va = a[~na].astype(np.float64).view(np.uint64)
    vb = b[~nb].astype(np.float64).view(np.uint64)
    if not np.array_equal(va, vb):
        i = int(np.nonzero(va != vb)[0][0])
        return "values differ at non-NaN sample %d: %r vs %r" % (i, a[~na][i], b[~nb][i])
    return None


def oracle(case):
    out = Outcome()
    spec = build(case)
    text = lastext.render(spec)
    r, c = len(case["rows"]), case["c"]
    layout = []
    if case["noise"]:
        layout.append("noise")
        if any(p >= r for p, _ in case["noise"]):
            layout.append("noise-last")
        if any(p == 0 for p, _ in case["noise"]):
            layout.append("noise-first")
    if case["after"]:
        layout.append("trailing-section")
    if case["nl"] == "\r\n":
        layout.append("crlf")
    if not case["final_nl"]:
        layout.append("no-final-nl")
    if r == 1:
        layout.append("single-row")
    if c == 1:
        layout.append("single-col")
    if case["d"] != c:
        layout.append("declared!=columns")
    out.cls(*layout)
    if case.get("dlm"):
        out.cls("dlm-" + case["dlm"])
    out.sample = dict(text=text if len(text) < 700 else text[:700] + "...", layout=layout)
    rkw = {}
    if case.get("null_policy") is not None:
        rkw["null_policy"] = case["null_policy"]  # both engines are asked under the SAME options
        out.cls("null_policy-%r" % (case["null_policy"],))
    if case.get("comment_char"):
        rkw["ignore_data_comments"] = case["comment_char"]
        out.cls("comment-char-" + case["comment_char"])
    with Trace() as tr:
        fast = read_text(text, engine="numpy", **rkw)
    slow = read_text(text, engine="normal", **rkw)
    out.cls("fast-path" if tr.fast else "fell-back-or-raised")
    out.nontrivial = bool(tr.fast and [x for x in layout if x != "declared!=columns"])
    tag = "+".join(x for x in layout if x in ("trailing-section", "single-row", "single-col", "noise-last")) or "plain"
    if is_raised(fast) and is_raised(slow):
        out.rejected = True
        out.cls("both-raise:" + slow.type)
        if fast.type != slow.type:
            out.fail("raise-differently|" + tag, "numpy engine: %s\nnormal engine: %s\n%s" % (fast, slow, text))
        return out
    if is_raised(fast) or is_raised(slow):
        which, r_ = ("numpy", fast) if is_raised(fast) else ("normal", slow)
        out.fail("only-%s-raises|%s|%s" % (which, r_.bucket, tag), "%s engine raised %s, the other engine read the file\n%s"
                 % (which, r_, text))
        return out
    ka, kb = fast.keys(), slow.keys()
    if ka != kb:
        out.fail("keys|" + tag, "curve mnemonics differ: numpy %r normal %r\n%s" % (ka, kb, text))
        return out
    for j, (x, y) in enumerate(zip(fast.curves, slow.curves)):
        msg = bits_equal(x.data, y.data)
        if msg:
            out.fail("data|" + tag, "curve %d (%s): %s\n fast-path=%s\n%s" % (j, x.mnemonic, msg, tr.events, text))
            return out
    d = canon.diff(canon.from_las(fast, data=False), canon.from_las(slow, data=False), names=("numpy", "normal"), data=False)
    if d:
        out.fail("header|" + tag, canon.show(d) + "\n" + text)
    return out


NULLTOK = st.sampled_from(["-999.25", "-999.2500", "-9.9925E2", "-999.2510", "-999.2501", "-999.24", "-999.25001"])  # NULL and near-NULL


@st.composite
def cases(draw, max_rows=10):
    shape = draw(st.integers(0, 9))
    if shape == 0:
        r, c = 1, 1
    elif shape == 1:
        r, c = 1, draw(st.integers(1, 8))
    elif shape == 2:
        r, c = draw(st.integers(1, max_rows)), 1
    else:
        r, c = draw(st.integers(1, max_rows)), draw(st.integers(1, 8))
    tok = st.one_of(S.number_token(), S.number_token(), S.number_token(), NULLTOK)
    rows = []
    simple = draw(st.booleans())
    for _ in range(r):
        toks = [draw(tok) for _ in range(c)]
        if simple:
            rows.append(dict(toks=toks, lead="", seps=[" "] * (c - 1), trail=""))
        else:
            rows.append(dict(toks=toks, lead=draw(S.pad0), seps=[draw(S.SEP) for _ in range(c - 1)], trail=draw(S.pad0)))
    dlm = None
    if draw(st.integers(0, 5)) == 0:
        # the file declares DLM TAB: every separator contains a tab; tabs may also pad the lines (same pad on all lines
        # some of the time, so that nothing makes the fast engine give up)
        dlm = "TAB"
        lead = draw(st.sampled_from(["", "", "\t", "\t\t", " "]))
        trail = draw(st.sampled_from(["", "", "\t", " \t"]))
        sep = draw(st.sampled_from(["\t", "\t", "\t\t", " \t", "\t "]))
        for rw in rows:
            rw["lead"], rw["trail"] = lead, trail
            rw["seps"] = [sep if draw(st.integers(0, 3)) else draw(st.sampled_from(["\t", "\t\t", " \t "])) for _ in rw["seps"]]
    noise_text = st.sampled_from(["", "", "   ", "\t", "# comment", "#", "  # indented comment", "#1 2 3"])
    nn = draw(st.sampled_from([0, 0, 1, 1, 2, 4]))
    noise = []
    for _ in range(nn):
        pos = draw(st.one_of(st.just(0), st.just(r), st.integers(0, r)))
        noise.append([pos, draw(noise_text)])
    if draw(st.integers(0, 7)) == 0:
        # a long run of comment / blank lines (longer than any sample of lines a sniffer may take) before the first row
        noise += [[0, draw(noise_text)] for _ in range(draw(st.integers(19, 30)))]
    after = draw(st.sampled_from([[], [], [], ["P"], ["O"], ["X"], ["P", "O"], ["X", "P"], ["E"], ["O", "X"], ["OL"], ["PL"], ["X", "OL"], ["PD"], ["XD"], ["XD", "O"]]))
    after = [a + str(draw(st.integers(8, 40))) if a in ("OL", "PL") else a for a in after]
    d = c if draw(st.integers(0, 99)) < (85 if len(noise) < 19 else 40) else draw(st.integers(0, 10))
    extra = {}
    k = draw(st.integers(0, 11))
    if k == 0:
        extra["null_policy"] = draw(st.sampled_from([["NULL", "-0.0"], "none", "common", ["NULL", "(null)"]]))
        for rw in rows:
            rw["toks"] = [("-0.0" if draw(st.integers(0, 5)) == 0 else t) for t in rw["toks"]]
    elif k == 1:
        extra["comment_char"] = draw(st.sampled_from(["%", ";", "!"]))
    if draw(st.integers(0, 7)) == 0:
        extra["hdr_char"] = draw(st.sampled_from(["\x0c", "\x0b", "\x1c", "\x1d", "\x1e", "\x85", "\u2028", "\u2029"]))
    if draw(st.integers(0, 5)) == 0:
        extra["wrap_spelling"] = draw(st.sampled_from(["No", "no", "N", "", "FALSE", "nO"]))
        if draw(st.booleans()):
            d = draw(st.integers(0, 10))  # what the file declares matters only to code that believes it is wrapped
    return dict(extra, dlm=dlm, scaffold=draw(S.scaffold()), c=c, d=d, rows=rows, noise=noise, after=after, nl=draw(st.sampled_from(["\n", "\n", "\r\n"])),
                final_nl=draw(st.sampled_from([True, True, False])),
                atitle=draw(st.sampled_from(["~ASCII", "~A", "~A  DEPTH  GR", "~Ascii log data"])))


def small_grid(tier):
    """Exhaustive layout grid over small shapes: every combination of (r, c, noise position, trailing section,
    newline, final newline) with fixed simple tokens."""
    rmax, cmax = (3, 3) if tier == "quick" else (5, 4)
    for r in range(1, rmax + 1):
        for c in range(1, cmax + 1):
            rows = [dict(toks=["%d.%d" % (i + 1, j + 1) for j in range(c)], lead="", seps=[" "] * (c - 1), trail="")
                    for i in range(r)]
            for noise in ([], [[0, ""]], [[r, ""]], [[r, "# c"]], [[0, "# c"]], [[r, ""], [r, ""]], [[1, ""]] if r > 1 else [[0, " "]]):
                for after in ([], ["P"], ["O"], ["X"], ["E"], ["OL%d" % (11 + r)], ["PL%d" % (10 + 2 * r)], ["OL%d" % (10 + 3 * c)]):
                    for nl in ("\n", "\r\n"):
                        for fnl in (True, False):
                            yield dict(c=c, d=c, rows=rows, noise=noise, after=after, nl=nl, final_nl=fnl, atitle="~A")


def vacuity(stats):
    if stats.classes.get("fast-path", 0) == 0:
        return "the numpy fast path never produced a data section in this run"
    return None


def evidence_extra(stats):
    n = stats.evaluations or 1
    return dict(fast_path_exercised=stats.classes.get("fast-path", 0),
                fast_path_fraction=round(stats.classes.get("fast-path", 0) / n, 4))


def parts(tier):
    return [
        Enum("layout-grid(r,c,noise,trailing,nl,final-nl)", small_grid),
        Hyp("generated-files", cases, quick=8000, thorough=60000),
        Hyp("generated-files-long", lambda: cases(max_rows=60), quick=600, thorough=20000),
    ]
