"""C13 - duplicate and blank mnemonics: unique session names, originals preserved."""
import io

from hypothesis import strategies as st

from vlib import models, secmodel as sm
from vlib.api import Enum, Hyp, Outcome, attempt, is_raised

ID = "C13"
LEVEL = "exploration"
RULE = ("(1) histories: case = {ci, ops}; every operation sequence of length <= 4 over {append, insert@{0,mid,end}, "
        "del by index, del section[key], section[key]=item, LASFile.replace_curve_item} x names {A, a, B, '', 'A:1', "
        "UNKNOWN} x mnemonic_transforms {off,on} is enumerated against the reference model (only applicable "
        "operations are produced); thorough adds every single operation from every model state reachable in <= 5 "
        "operations (sequences of length <= 6 up to equality of the section state reached by the prefix). Each "
        "history runs on the ~Curves section of a LASFile (through LASFile methods where one exists) and "
        "on a bare SectionItems of HeaderItems with replace_curve_item(i, x) read as `section[i] = x` (enumerated "
        "histories: those of length <= 3). "
        "After each step: section content (identity) as the list model, originals as the model, session names "
        "pairwise distinct, each resolving through section[k], getattr(section,k), LASFile[k] to its own item, session "
        "names as the documented numbering rule; the enumeration is prefix-closed, so an enumerated case is judged "
        "in full after its last step and only for agreement with the model before. (2) generated histories of 5..25 "
        "operations (judged in full after every step) "
        "over a larger name alphabet incl. negative/past-the-end insert positions and section[absent]=item. "
        "(3) file level: multisets of conformant mnemonics (blanks, case variants, duplicates) appended to ~Well, "
        "~Curves and ~Parameter of LASFile() -> write(version=2.0) -> the written item lines carry the originals -> "
        "read under mnemonic_case preserve/upper/lower -> originals are the case-mapped originals and session names "
        "are the model's. Non-trivial: history with a delete followed by an insert of the same name, or a name "
        "ending in ':<digits>', or a case-variant pair; file with at least one duplicate or blank mnemonic.")
ASSUMPTIONS = [
    "reference = documented rule (docs 'Handling duplicate mnemonics'): blank -> UNKNOWN; after an insertion of an "
    "item with useful name U all items equal to U (ignoring case iff mnemonic_transforms) are numbered :1..:n in "
    "order when n > 1; nothing is renumbered on deletion (stale suffixes are what the rule produces)",
    "a replacement (section[key] = item, replace_curve_item) is modelled as deletion + insertion at the same position",
    "mnemonic_transforms=True set on the section exactly as the reader does stands for 'the section was "
    "case-normalised'; under it session names are compared ignoring case when judging distinctness",
    "replace_curve_item is only driven with indexes 0..n-1 (negative indexes are a positional question, C14)",
    "the LASFile of the ~Curves flavour is created once per process; every history starts from a fresh empty "
    "SectionItems installed as its ~Curves section (as the reader installs a parsed section)",
    "a collision that the documented rule itself produces (a mnemonic that literally ends in ':<digits>' meeting a "
    "generated or stale suffix) is reported under one bucket and the history continues; any other disagreement "
    "with the model ends the history (later steps cannot be judged)",
    "thorough length-5/6 coverage relies on lasio's behaviour being a function of the visible section state "
    "(order, original and session mnemonic of each item, mnemonic_transforms); equality of that state with the "
    "model's is verified after every step of every representative prefix",
    "file level: mnemonics without '.', ':', whitespace, not starting with '#' or '~', never VERS WRAP DLM NULL STRT "
    "STOP STEP in any case; blank mnemonics only on lines with empty unit and no other period; ASCII plus a few "
    "letters with one-to-one case mapping",
]

NAMES = ["A", "a", "B", "", "A:1", "UNKNOWN"]
BIG_NAMES = ["A", "a", "B", "b", "AB", "", " ", "A:1", "A:2", "a:1", "B:1", "UNKNOWN", "unknown", "UNKNOWN:1", "SW%", "%d", "C{0}",
             "A:1:1", "1", "A:01"]


# ------------------------------------------------------------------------------------------
# histories


def opkind(op):
    return op[0]


def check_state(out, d, m, op, full, flags):
    """Compare the lasio section of driver d with model m after operation op.
    Returns False when lasio and the model have parted (later steps cannot be judged)."""
    if not full:
        # prefix step of a prefix-closed enumeration: the prefix is judged as a case of its own; here only
        # find out whether lasio is still where the model is
        items = d.items()
        return (len(items) == len(d.objs) and all(a is b for a, b in zip(items, d.objs))
                and [it.mnemonic for it in items] == m.sessions() and [it.original_mnemonic for it in items] == m.originals())
    kind = opkind(op) if op else "initial"
    fl = d.flavour
    items = d.items()
    if len(items) != len(d.objs) or any(a is not b for a, b in zip(items, d.objs)):
        out.fail("section-content-differs-from-list-model|%s|%s" % (kind, fl),
                 "after %r: section holds %r, list semantics give %r" % (op, sm.render(items), sm.render(d.objs)))
        return False
    origs = [it.original_mnemonic for it in items]
    if origs != m.originals():
        out.fail("original-altered|%s" % kind, "after %r: originals %r, model %r" % (op, origs, m.originals()))
        return False
    keys = attempt(d.section.keys)
    if is_raised(keys):
        out.fail("keys-raised|%s" % keys.bucket, "after %r: %s" % (op, keys))
        return False
    mine = [it.mnemonic for it in items]
    if keys != mine:
        out.fail("keys-not-item-mnemonics|%s" % kind, "keys() %r, item mnemonics %r" % (keys, mine))
        return False
    ci = d.ci
    agree = keys == m.sessions()
    if not full and agree:
        return True
    # pairwise distinct
    groups = {}
    for i, k in enumerate(keys):
        groups.setdefault(sm.norm(k, ci), []).append(i)
    colliding = {g for g, ix in groups.items() if len(ix) > 1}
    if colliding and full:
        mgroups = {}
        for i, k in enumerate(m.sessions()):
            mgroups.setdefault(sm.norm(k, ci), []).append(i)
        for g in sorted(colliding):
            if mgroups.get(g) == groups[g]:
                # the documented rule itself yields this collision: a name that looks like a generated suffix
                if "rule" not in flags:
                    flags.add("rule")
                    out.fail("session-collision|name-ending-in-:digits-vs-generated-suffix",
                             "after %r (%s, ci=%s): items %r share session name %r (originals %r); the documented "
                             "numbering rule gives the same names" % (op, fl, ci, groups[g], g, origs))
            else:
                out.fail("session-collision|%s" % kind,
                         "after %r (%s, ci=%s): items %r share session name %r; section %r; model %r"
                         % (op, fl, ci, groups[g], g, sm.render(items), m.sessions()))
    if not agree:
        if full:
            out.fail("numbering-differs-from-model|%s" % kind,
                     "after %r (%s, ci=%s): session names %r, documented rule gives %r for originals %r"
                     % (op, fl, ci, keys, m.sessions(), origs))
        return False
    if not full:
        return True
    # resolution of every (non-colliding) session name to its own item
    s = d.section
    for i, k in enumerate(keys):
        if sm.norm(k, ci) in colliding:
            continue
        got = attempt(s.__getitem__, k)
        if is_raised(got):
            out.fail("accessor-raised|getitem|%s" % got.type, "section[%r] raised %s; keys %r" % (k, got, keys))
        elif got is not items[i]:
            out.fail("wrong-item-resolved|getitem", "section[%r] is not item %d; keys %r (ci=%s)" % (k, i, keys, ci))
        if sm.attr_key(k):
            got = attempt(getattr, s, k)
            if is_raised(got):
                out.fail("accessor-raised|getattr|%s" % got.type, "section.%s raised %s; keys %r" % (k, got, keys))
            elif got is not items[i]:
                out.fail("wrong-item-resolved|getattr", "section.%s is not item %d; keys %r (ci=%s)" % (k, i, keys, ci))
        if d.las is not None:
            got = attempt(d.las.__getitem__, k)
            if is_raised(got):
                out.fail("accessor-raised|LASFile-getitem|%s" % got.type,
                         "las[%r] raised %s; curve keys %r" % (k, got, keys))
            elif got is not items[i].data:
                out.fail("wrong-item-resolved|LASFile-getitem",
                         "las[%r] is not the data of curve %d; keys %r (ci=%s)" % (k, i, keys, ci))
            got = attempt(d.las.curves.__getitem__, k)
            if is_raised(got) or got is not items[i]:
                out.fail("wrong-item-resolved|LASFile.curves-getitem",
                         "las.curves[%r] -> %r, expected item %d; keys %r" % (k, got, i, keys))
    return True


def run_history(out, flavour, ci, ops, every_step):
    d = sm.Driver(flavour, ci)
    m = models.NameModel(ci)
    flags = set()
    last = len(ops) - 1
    for n, op in enumerate(ops):
        pos = sm.model_find(m, op[1]) if op[0] in ("del_key", "set") else None
        try:
            sm.model_apply(m, op)
        except LookupError:
            out.rejected = True  # not a history of the domain (precondition of an operation fails)
            out.cls("inapplicable-op")
            return
        r = attempt(apply_op, d, op, pos)
        if is_raised(r):
            out.fail("operation-raised|%s|%s" % (op[0], r.bucket), "%r raised %s on %r" % (op, r, sm.render(d.items())))
            return
        full = every_step or n == last
        before = len(out.violations)
        if not check_state(out, d, m, op, full, flags):
            if len(out.violations) == before:
                out.cls("prefix-diverged")  # reported by the (enumerated) prefix case itself
            else:
                out.cls("stopped-at-divergence")
            return


def apply_op(d, op, pos):
    # the expected object list follows the MODEL's position (first item whose model session name matches)
    if op[0] in ("del_key", "set") and pos is not None:
        return d.apply(op, pos)
    return d.apply(op)


def judge_history(case, every_step, header_maxlen=None):
    out = Outcome()
    ci, ops = bool(case["ci"]), case["ops"]
    feats = sm.history_features(ops, ci)
    out.nontrivial = bool(feats)
    out.cls("ci" if ci else "cs", "len-%d" % len(ops), *sorted(feats))
    out.cls(*sorted({"op-" + op[0] for op in ops}))
    if (header_maxlen is None or len(ops) <= header_maxlen) and not any(op[0] == "set_data" for op in ops):
        # on a bare section the positional replacement is `section[i] = item`
        run_history(out, "header", ci, [["set_ix"] + op[1:] if op[0] == "rci" else op for op in ops], every_step)
    run_history(out, "curves", ci, ops, every_step)
    out.sample = case
    return out


def oracle(case):
    if "file" in case:
        return file_oracle(case)
    return judge_history(case, True)


def oracle_prefix_closed(case):
    """For the exhaustive parts, where every proper prefix of a case is itself a case: full judgement of the
    last step, agreement with the model on the earlier ones.  The bare-SectionItems flavour is run for
    histories of length <= 3, the LASFile ~Curves flavour for all."""
    return judge_history(case, False, header_maxlen=3)


def all_histories(tier):
    for ci in (False, True):
        for ops in sm.histories(NAMES, 4, ci):
            yield {"ci": ci, "ops": ops}


def one_step_from_every_state(tier):
    """Thorough: representative shortest history for every model state reachable in <= 5 operations, followed by
    every applicable operation; only extensions of length 5 and 6 (shorter ones are in all_histories)."""
    if tier == "quick":
        return
    depth = 5
    for ci in (False, True):
        seen = {}
        frontier = [(models.NameModel(ci), [])]
        seen[()] = True
        level = 0
        while frontier and level <= depth:
            nxt = []
            for m, ops in frontier:
                for op in sm.applicable_ops(m.sessions(), NAMES):
                    if level >= 4:
                        yield {"ci": ci, "ops": ops + [op]}
                    if level < depth:
                        m2 = m.copy()
                        sm.model_apply(m2, op)
                        sig = tuple((o, s) for o, s in m2.items)
                        if sig not in seen:
                            seen[sig] = True
                            nxt.append((m2, ops + [op]))
            frontier = nxt
            level += 1


@st.composite
def long_histories(draw):
    ci = draw(st.booleans())
    # a small pool makes duplicates, re-insertions and stale suffixes frequent
    pool = draw(st.lists(st.sampled_from(BIG_NAMES), min_size=2, max_size=6, unique=True))
    name = st.sampled_from(pool)
    n_ops = draw(st.integers(5, 25))
    m = models.NameModel(ci)
    ops = []
    curves_only = draw(st.booleans())
    for _ in range(n_ops):
        n = len(m.items)
        kinds = ["append", "insert", "insert"]
        if n:
            kinds += ["del_ix", "del_key", "set", "set", "set_ix"]
            if curves_only:
                kinds += ["rci", "rci"]
        kinds.append("set_absent")
        if n and curves_only:
            kinds.append("set_data")
        if n >= 2:
            kinds += ["move", "move"]
        k = draw(st.sampled_from(kinds))
        if k == "append":
            op = ["append", draw(name)]
        elif k == "insert":
            op = ["insert", draw(st.integers(-n - 1, n + 1)), draw(name)]
        elif k == "del_ix":
            op = ["del_ix", draw(st.integers(-n, n - 1))]
        elif k == "del_key":
            op = ["del_key", draw(st.sampled_from(sm.distinct(m.sessions())))]
        elif k == "set":
            op = ["set", draw(st.sampled_from(sm.distinct(m.sessions()))), draw(name)]
        elif k == "set_absent":
            op = ["set", "ZZ", draw(name)]  # documented: appends when the key is absent
        elif k == "move":
            op = ["move", draw(st.integers(0, n - 1)), draw(st.integers(0, n - 1))]
        elif k == "set_data":
            op = ["set_data"]
        elif k == "set_ix":
            op = ["set_ix", draw(st.integers(0, n - 1)), draw(name)]
        else:
            op = ["rci", draw(st.integers(0, n - 1)), draw(name)]
        sm.model_apply(m, op)
        ops.append(op)
    return {"ci": ci, "ops": ops}


# ------------------------------------------------------------------------------------------
# file level

RESERVED = {"VERS", "WRAP", "DLM", "NULL", "STRT", "STOP", "STEP"}
FILE_CHARS = "ABCDEFGHIJKLMNOPQRSTUVWXYZabcdefghijklmnopqrstuvwxyz0123456789_-/()[]%&*+" + "éÉдЖ"
SECTIONS = (("Version", "V"), ("Well", "W"), ("Curves", "C"), ("Parameter", "P"))
CASEMAP = {"preserve": lambda x: x, "upper": lambda x: x.upper(), "lower": lambda x: x.lower()}


def conformant(mn):
    if mn == "":
        return True
    return (mn.strip() == mn and not any(c in mn for c in ".: \t") and mn[0] not in "#~"
            and mn.upper() not in RESERVED and mn.lower().upper() not in RESERVED
            and len(mn.upper()) == len(mn) == len(mn.lower()))


@st.composite
def file_cases(draw):
    base = st.one_of(st.sampled_from(["GR", "RES", "Rho", "dt", "UNKNOWN", "unknown", "COMP", "DEPT", "x1"]),
                     st.text(FILE_CHARS, min_size=1, max_size=5))
    pool = draw(st.lists(base, min_size=1, max_size=3))
    pool = [p for p in pool if conformant(p)] or ["GR"]

    def variant(p):
        return draw(st.sampled_from([p, p, p.upper(), p.lower(), p.capitalize(), p.swapcase()]))

    def mnem():
        k = draw(st.integers(0, 9))
        if k <= 1:
            return ""
        if k <= 7:
            v = variant(draw(st.sampled_from(pool)))
            return v if conformant(v) else "GR"
        v = draw(st.text(FILE_CHARS, min_size=1, max_size=6))
        return v if conformant(v) else "Gr"

    secs = {}
    for title, _ in SECTIONS:
        secs[title] = [mnem() for _ in range(draw(st.integers(0, 6)))]
    return {"file": secs, "nrows": draw(st.integers(1, 3)), "version": draw(st.sampled_from([2.0, 2.0, 1.2])),
            "second_cycle": draw(st.booleans()), "bare_blanks": draw(st.booleans()),
            "wrap": draw(st.sampled_from([None, None, True, False]))}


def parse_written(text):
    """{section letter: [mnemonic field of every item line]} from a LAS text, by the file grammar only."""
    res = {}
    cur = None
    for line in text.split("\n"):
        t = line.strip()
        if not t or t.startswith("#"):
            continue
        if t.startswith("~"):
            cur = t[1:2].upper()
            res.setdefault(cur, [])
            continue
        if cur in ("V", "W", "C", "P"):
            res[cur].append(line.split(".", 1)[0].strip() if "." in line else None)
    return res


def check_section(out, tag, section, originals, ci):
    """Uniqueness / resolution / model agreement of one section of a LASFile."""
    exp = models.session_names(originals, ci)
    items = list(list.__iter__(section))
    got_o = [it.original_mnemonic for it in items]
    if got_o != originals:
        out.fail("original-not-reproduced|%s" % tag, "originals %r, expected %r" % (got_o, originals))
        return
    keys = section.keys()
    normed = [sm.norm(k, ci) for k in keys]
    if len(set(normed)) != len(normed):
        out.fail("session-collision|%s" % tag, "session names %r (ci=%s), originals %r" % (keys, ci, originals))
    if keys != exp:
        out.fail("session-names-differ-from-model|%s" % tag,
                 "session names %r, documented rule gives %r for originals %r (ci=%s)" % (keys, exp, originals, ci))
        return
    for i, k in enumerate(keys):
        if normed.count(sm.norm(k, ci)) > 1:
            continue
        got = attempt(section.__getitem__, k)
        if got is not items[i]:
            out.fail("wrong-item-resolved|getitem|%s" % tag, "section[%r] -> %r, expected item %d of %r" % (k, got, i, keys))
        if sm.attr_key(k):
            got = attempt(getattr, section, k)
            if got is not items[i]:
                out.fail("wrong-item-resolved|getattr|%s" % tag, "section.%s -> %r, expected item %d of %r" % (k, got, i, keys))


def file_oracle(case):
    import lasio
    import numpy as np

    out = Outcome()
    secs = case["file"]
    nrows = case.get("nrows", 2)
    las = lasio.LASFile()
    originals = {"Well": [it.original_mnemonic for it in list.__iter__(las.well)], "Curves": [], "Parameter": [],
                 "Version": [it.original_mnemonic for it in list.__iter__(las.version)]}
    serial = 0

    def add(title, fn, *args, **kw):
        # appending an item, whatever its name, is an operation of the property's domain: it must not raise
        r = attempt(fn, *args, **kw)
        if is_raised(r):
            out.fail("operation-raised|append|%s" % r.bucket, "appending %r to %s raised %s" % (args[0] if title == "Curves" else args[0].original_mnemonic, title, r))
            return False
        return True

    def bare(mn):
        # a blank mnemonic on a line whose other fields are blank too (` .  : `): still an item, still UNKNOWN
        if mn == "" and case.get("bare_blanks"):
            out.cls("blank-item-with-all-fields-blank")
            return lasio.HeaderItem("", "", "", "")
        return None

    for mn in secs.get("Version", []):
        serial += 1
        if not add("Version", las.version.append, bare(mn) or lasio.HeaderItem(mn, "", "v%d" % serial, "version item %d" % serial)):
            return out
        originals["Version"].append(mn)
    for mn in secs["Well"]:
        serial += 1
        if not add("Well", las.well.append, bare(mn) or lasio.HeaderItem(mn, "", "w%d" % serial, "well item %d" % serial)):
            return out
        originals["Well"].append(mn)
    las.append_curve("DEPT", np.arange(nrows, dtype=float) + 1.0, unit="m", descr="index")
    originals["Curves"].append("DEPT")
    for mn in secs["Curves"]:
        serial += 1
        if not add("Curves", las.append_curve, mn, np.arange(nrows, dtype=float) + 10.0 * serial, unit="",
                   descr="" if (mn == "" and case.get("bare_blanks")) else "curve %d" % serial):
            return out
        originals["Curves"].append(mn)
    for mn in secs["Parameter"]:
        serial += 1
        if not add("Parameter", las.params.append, bare(mn) or lasio.HeaderItem(mn, "", serial, "param %d" % serial)):
            return out
        originals["Parameter"].append(mn)

    dup = False
    for title, _ in SECTIONS:
        o = [models.useful(x) for x in originals[title]]
        if len({x.upper() for x in o}) < len(o):
            dup = True
    blank = any(mn == "" for t in secs.values() if isinstance(t, list) for mn in t)
    out.nontrivial = dup or blank
    out.cls("file", "file-duplicates" if dup else None, "file-blank" if blank else None)
    out.sample = case

    for title, _ in SECTIONS:
        check_section(out, "built|%s" % title, las.sections[title], originals[title], False)
    if out.violations:
        return out

    version = case.get("version", 2.0)
    out.cls("file-v%s" % version)
    buf = io.StringIO()
    wkw = {}
    if case.get("wrap") is not None:
        wkw["wrap"] = case["wrap"]
        out.cls("file-wrap=%s" % case["wrap"])
    r = attempt(las.write, buf, version=version, **wkw)
    if is_raised(r):
        out.fail("write-raised|%s" % r.bucket, "write raised %s for %r" % (r, secs))
        return out
    text = buf.getvalue()
    written = parse_written(text)
    for title, letter in SECTIONS:
        if written.get(letter) != originals[title]:
            out.fail("written-mnemonic-not-original|%s" % title,
                     "written ~%s mnemonics %r, originals %r\n%s" % (letter, written.get(letter), originals[title], text))
    after = {t: [it.original_mnemonic for it in list.__iter__(las.sections[t])] for t, _ in SECTIONS}
    if after != originals:
        out.fail("original-altered|write", "originals after write %r, before %r" % (after, originals))
    if out.violations:
        return out

    for c in ("preserve", "upper", "lower"):
        las2 = attempt(lasio.read, text, mnemonic_case=c)
        if is_raised(las2):
            out.fail("reread-raised|%s|%s" % (c, las2.bucket), "read(mnemonic_case=%r) raised %s\n%s" % (c, las2, text))
            continue
        for title, _ in SECTIONS:
            mapped = [CASEMAP[c](x) for x in originals[title]]
            check_section(out, "reread-%s|%s" % (c, title), las2.sections[title], mapped, c != "preserve")
        if out.violations or not case.get("second_cycle"):
            continue
        # second cycle: the re-read file is written as the OTHER version and read again with the same option
        other = 1.2 if version == 2.0 else 2.0
        buf2 = io.StringIO()
        r2 = attempt(las2.write, buf2, version=other)
        if is_raised(r2):
            out.fail("second-write-raised|%s|%s" % (c, r2.bucket), "write(version=%r) of the file re-read with %r raised %s" % (other, c, r2))
            continue
        text2 = buf2.getvalue()
        written2 = parse_written(text2)
        for title, letter in SECTIONS:
            mapped = [CASEMAP[c](x) for x in originals[title]]
            if title == "Version":
                # the writer substitutes its standard (upper-case) VERS item
                mapped = ["VERS" if x.upper() == "VERS" else x for x in mapped]
            if written2.get(letter) != mapped:
                out.fail("written-mnemonic-not-original|second-cycle|%s" % title,
                         "mnemonic_case=%s: written ~%s mnemonics %r, originals %r\n%s" % (c, letter, written2.get(letter), mapped, text2))
        las3 = attempt(lasio.read, text2, mnemonic_case=c)
        if is_raised(las3):
            out.fail("reread-raised|second-cycle|%s|%s" % (c, las3.bucket), "%s\n%s" % (las3, text2))
            continue
        for title, _ in SECTIONS:
            mapped = [CASEMAP[c](CASEMAP[c](x)) for x in originals[title]]
            if title == "Version":
                mapped = [CASEMAP[c]("VERS") if x.upper() == "VERS" else x for x in mapped]
            check_section(out, "reread2-%s|%s" % (c, title), las3.sections[title], mapped, c != "preserve")
    return out


def parts(tier):
    return [
        Enum("histories<=4(ops x names x ci)", all_histories, oracle=oracle_prefix_closed),
        Enum("one-step-from-every-state<=5", one_step_from_every_state, oracle=oracle_prefix_closed),
        Hyp("long-histories", long_histories, quick=1500, thorough=40000),
        Hyp("file-roundtrip", file_cases, quick=1200, thorough=30000),
    ]
