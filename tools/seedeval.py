#!/venv/bin/python
"""tools/seedeval.py <PROPERTY-ID> <patch.diff> <demo.py> <name> [--notes FILE] [--checks C01,C03] [--no-tests]

Confirm a seeded change (written by an independent sub-agent) and measure whether the checks catch it:
  1. scratch worktree of /repo HEAD under /tmp, patch applied (must apply cleanly)
  2. demo exits 0 on a clean worktree and 1 on the patched one
  3. the repository's pinned suite: every BASELINE stable_pass test still passes on the patched tree
  4. ./check <ID> (quick tier) against the patched tree: exit 1 = caught
Results are stored in /verif/seeded/<name>/ (patch.diff, demo.py, notes.md, meta.json). Nothing is applied to /repo."""
import argparse
import json
import os
import shutil
import subprocess
import sys
import tempfile
import time
import xml.etree.ElementTree as ET

VERIF = os.path.dirname(os.path.dirname(os.path.abspath(__file__)))
PY = "/venv/bin/python"


def sh(cmd, cwd=None, env=None, timeout=3600):
    r = subprocess.run(cmd, cwd=cwd, env=env, stdout=subprocess.PIPE, stderr=subprocess.STDOUT, text=True, timeout=timeout)
    return r.returncode, r.stdout


def worktree(patch=None):
    d = tempfile.mkdtemp(prefix="lasio-seed.", dir="/tmp")
    os.rmdir(d)
    rc, out = sh(["git", "-C", "/repo", "worktree", "add", "-q", "--detach", d, "HEAD"])
    if rc:
        raise SystemExit("worktree add failed: " + out)
    if patch:
        rc, out = sh(["git", "-C", d, "apply", patch])
        if rc:
            drop(d)
            raise SystemExit("PATCH DOES NOT APPLY: " + out)
    return d


def drop(d):
    sh(["git", "-C", "/repo", "worktree", "remove", "--force", d])
    sh(["git", "-C", "/repo", "worktree", "prune"])
    shutil.rmtree(d, ignore_errors=True)


def run_demo(demo, tree):
    env = dict(os.environ, PYTHONPATH=tree, PYTHONDONTWRITEBYTECODE="1")
    rc, out = sh([PY, demo], cwd=tree, env=env, timeout=600)
    return rc, out[-1500:]


def run_suite(tree):
    base = json.load(open("/root/.vp/BASELINE.json"))
    xml = os.path.join(tempfile.mkdtemp(prefix="junit."), "j.xml")
    env = dict(os.environ, PYTHONPATH=tree, PYTHONDONTWRITEBYTECODE="1")
    env.pop("LASIO_VERIF", None)
    sh([PY, "-m", "pytest", "-q", "-p", "no:cacheprovider", "--timeout=900", "--continue-on-collection-errors",
        "--deselect", "tests/test_speed.py", "--junitxml=" + xml], cwd=tree, env=env)
    passed = set()
    for tc in ET.parse(xml).getroot().iter("testcase"):
        if not any(ch.tag in ("failure", "error", "skipped") for ch in tc):
            passed.add("%s::%s" % (tc.get("classname"), tc.get("name")))
    shutil.rmtree(os.path.dirname(xml), ignore_errors=True)
    missing = [t for t in base["stable_pass"] if t not in passed and not t.startswith("tests.test_speed")]
    return missing


def main():
    ap = argparse.ArgumentParser()
    ap.add_argument("pid")
    ap.add_argument("patch")
    ap.add_argument("demo")
    ap.add_argument("name")
    ap.add_argument("--notes")
    ap.add_argument("--checks")
    ap.add_argument("--no-tests", action="store_true")
    ap.add_argument("--seeds", default="1")
    a = ap.parse_args()
    patch, demo = os.path.abspath(a.patch), os.path.abspath(a.demo)
    meta = dict(property=a.pid, name=a.name, evaluated_at=time.strftime("%Y-%m-%dT%H:%M:%SZ", time.gmtime()),
                repo_head=sh(["git", "-C", "/repo", "rev-parse", "--short", "HEAD"])[1].strip())
    clean = worktree()
    try:
        rc0, out0 = run_demo(demo, clean)
    finally:
        drop(clean)
    mut = worktree(patch)
    try:
        rc1, out1 = run_demo(demo, mut)
        meta["demo_clean_rc"], meta["demo_patched_rc"] = rc0, rc1
        meta["demo_patched_output"] = out1[-600:]
        meta["demo_ok"] = (rc0 == 0 and rc1 != 0)
        if not a.no_tests:
            missing = run_suite(mut)
            meta["suite_stable_tests_failing"] = missing
            meta["suite_ok"] = not missing
        checks = (a.checks.split(",") if a.checks else [a.pid])
        meta["checks"] = {}
        for cid in checks:
            for seed in a.seeds.split(","):
                env = dict(os.environ, LASIO_VERIF_REPO=mut, VERIF_SEED=seed, VERIF_OUT="/tmp/verif-seed-out-%s" % a.name)
                t0 = time.time()
                rc, out = sh([os.path.join(VERIF, "check"), cid, "--tier", "quick"], cwd=VERIF, env=env)
                buckets = [ln.strip()[8:] for ln in out.splitlines() if ln.strip().startswith("bucket:")]
                meta["checks"]["%s@seed%s" % (cid, seed)] = dict(rc=rc, caught=(rc == 1), wall_s=round(time.time() - t0, 1), buckets=buckets[:6])
                shutil.rmtree("/tmp/verif-seed-out-%s" % a.name, ignore_errors=True)
        meta["caught_by"] = sorted({k.split("@")[0] for k, v in meta["checks"].items() if v["caught"]})
    finally:
        drop(mut)
    d = os.path.join(VERIF, "seeded", a.name)
    os.makedirs(d, exist_ok=True)
    old = {}
    if os.path.exists(os.path.join(d, "meta.json")):
        old = json.load(open(os.path.join(d, "meta.json")))
    for k in ("summary", "needs", "breaks_property", "history", "first_evaluation", "verdict", "rebased"):
        if k in old:
            meta[k] = old[k]
    if a.no_tests and "suite_ok" in old:
        meta["suite_ok"] = old["suite_ok"]
        meta["suite_stable_tests_failing"] = old.get("suite_stable_tests_failing", [])
    if old and not old.get("caught_by") and "first_evaluation" not in meta:
        meta["first_evaluation"] = dict(evaluated_at=old.get("evaluated_at"), repo_head=old.get("repo_head"), caught_by=[], checks=old.get("checks"))
    if meta.get("first_evaluation") and meta["caught_by"]:
        meta["history"] = ("MISSED by the quick tier at first evaluation; the generator/oracle was strengthened (DESIGN.md 10.4) "
                           "and the change is now caught")
    for src, dst in ((patch, "patch.diff"), (demo, "demo.py"), (a.notes, "notes.md")):
        if src and os.path.exists(src) and os.path.abspath(src) != os.path.join(d, dst):
            shutil.copy(src, os.path.join(d, dst))
    meta["what_was_run"] = ("scratch worktree of /repo HEAD + patch; demo.py on clean and patched tree; pinned pytest suite on the "
                            "patched tree (stable_pass of BASELINE.json); ./check <id> --tier quick with LASIO_VERIF_REPO=<patched tree>")
    with open(os.path.join(d, "meta.json"), "w") as f:
        json.dump(meta, f, indent=1, sort_keys=True)
    print("%s %s demo_ok=%s suite_ok=%s caught_by=%s" % (a.pid, a.name, meta["demo_ok"], meta.get("suite_ok"), meta["caught_by"]))
    for k, v in meta["checks"].items():
        print("   %s rc=%s %ss %s" % (k, v["rc"], v["wall_s"], v["buckets"][:3]))


if __name__ == "__main__":
    main()
