#!/venv/bin/python
"""Regenerate /verif/MANIFEST.json from the check modules and the table below."""
import json
import os
import sys

VERIF = os.path.dirname(os.path.dirname(os.path.abspath(__file__)))
sys.path.insert(0, VERIF)

META = {
    "C01": ("round-trip oracle, Hypothesis + enumeration of curve counts",
            "write->read round trip over generated LASFiles x writer options x both engines; tolerance = half a unit of the last "
            "printed digit computed in exact rational arithmetic; every curve count 1..40 enumerated for wrapped default output",
            "formats restricted to rounding formats; spacer='' only with a sufficient len_numeric_field; any data_width (a value is never split: former precondition lifted with the repair of D48); objects built from scratch or obtained from a read with any mnemonic_case"),
    "C02": ("differential testing (numpy vs normal engine), Hypothesis + layout grid",
            "differential oracle between the two data engines over generated layouts (noise lines, trailing sections, CRLF, "
            "missing final newline, 1xN, Nx1, 1x1) with an entry-point wrapper proving the fast path produced the data",
            "plain decimal tokens only; both engines raising counts as rejected; run is a harness error if the fast path is never taken"),
    "C03": ("round-trip oracle with expected items computed from the description, Hypothesis",
            "header write->read over generated sections (duplicates, blank mnemonics, widest-item designation, empty value + "
            "unit, numeric/text values) x versions x mnemonic_case, compared with an expectation computed without lasio",
            "LAS-conformant fields as listed in the statement; NaN/inf header values not generated"),
    "C04": ("inverse oracle (format then parse), Hypothesis + exhaustive clock-time enumeration",
            "lines formatted from generated fields and paddings must parse back to exactly those fields in every section kind; "
            "all 24x60 clock times x seconds x date placement enumerated; special forms (no period, `1000 lbf`) covered; lines "
            "also read inside whole files of both versions",
            "conformant fields; in ~Parameter the separating colon is set off by blanks when the value is a time or the description has colons"),
    "C05": ("expected-reading oracle over generated section permutations, Hypothesis + title grid",
            "FileSpecs with permuted sections, ~A anywhere, title spellings in both cases, custom sections, empty sections and "
            "steering names placed in non-steering sections (and in the OTHER steering section) are read and compared item by item / cell by cell with the expected reading, "
            "also when the LASFile object has read another file before",
            "titles without '_'; custom titles start with a letter outside VWCPOA; one section of each standard kind"),
    "C06": ("iff-oracle over generated NULL spellings and placements, Hypothesis + spelling grid",
            "both directions of 'NaN iff non-index numeric sample equal to NULL' over NULL values/spellings, near-NULL neighbours, "
            "index and text columns, both engines and policies, wrapped/unwrapped; write side checks the NULL marker in the text and NaN positions after re-read",
            "plain decimal tokens; text cells without blanks"),
    "C07": ("cell-coordinate oracle, exhaustive (d,c,r) grids + Hypothesis",
            "every cell carries its own coordinates; (declared, columns, rows) grids for both engines and all wrapping widths are "
            "enumerated exhaustively (with DLM COMMA/TAB, comment runs, run-on negatives, date / text / empty / quoted columns, Ctrl-Z markers, null policies), "
            "larger shapes generated; curves must be rectangular, in order, surplus columns appended, missing ones NaN",
            "every data line carries the same number of values; wrapped files declare exactly their curves"),
    "C08": ("exhaustive string enumeration against an independent literal classifier + Hypothesis near-literals",
            "all strings of length <= 5 (quick) / <= 6 (thorough) over an 18-symbol alphabet are converted and compared with a "
            "three-valued reference classifier; near-literals and named identifiers are also placed in ~V/~W/~P/custom/~C of whole files with API/UWI mnemonics",
            "values reach the converter stripped; bare decimal marks ('5.', '.5') may be number or text"),
    "C09": ("metamorphic testing (presentation-only transformations), Hypothesis over generated specs and corpus edits",
            "noisy presentations (blank/comment lines, paddings, CRLF, missing final newline, re-wrapping, re-delimiting) of generated "
            "files and text-level edits of every readable example file must read equal to the plain presentation and to the expected reading",
            "no noise inside ~Other; wrapped files use the SPACE delimiter; numeric tokens only"),
    "C10": ("channel/encoding differential + history-based purity invariants, Hypothesis",
            "the same text through 5 channels x 7 encodings x 3 line ends must give the StringIO reading and the expected reading; "
            "operation histories (reads, reads with policy lists, LASFile.read() into a used object, mutations, writes, LASFile(), a path rewritten with other encodings, option objects reused) must leave re-reads, untouched "
            "results and fresh defaults unchanged; files that exercise module-level tables are compared with fixed expectations",
            "autodetection claimed for the UTF-8 BOM only; CR line ends for files only"),
    "C11": ("fixed-point oracle over repeated read->write cycles, corpus enumeration + Hypothesis",
            "for corpus files, generated LASFiles and generated texts: cycles 2..4 of write/read must reproduce the canonical content of the first re-read exactly",
            "inputs that cannot be read or written the first time are rejected; open findings D41 (text samples holding both quote characters) and D44 (text samples with digit-hyphen/comma-digit), D49 (WRAP stated twice + wrapped output) excluded by construction"),
    "C12": ("metamorphic testing (pairs of writer configurations), corpus enumeration + Hypothesis",
            "two writer configurations with the same numeric format applied to fresh copies of the same input must re-read to equal content apart from VERS and WRAP, including 1.2 <-> 2.0 conversion",
            "items whose value/description contains ':' are not compared across versions (ambiguous in the 1.2 format); D41/D44 sources excluded"),
    "C13": ("model-based testing (documented numbering rule), exhaustive operation sequences + Hypothesis histories + file round trips",
            "all operation sequences up to length 4 (quick) over a 6-name alphabet x case modes are checked after every step against the "
            "documented naming model (append, insert, delete, replace by key / position, get(add=True), move, set_data): uniqueness, resolution by item/attribute/LASFile[...], "
            "originals preserved; file-level multisets re-read under the three mnemonic_case modes",
            "after deletions stale suffixes are what the documented rule yields; open finding D23 (literal ':n' names) reported, not fatal"),
    "C14": ("model-based stateful testing (ordered-list model), Hypothesis rule-based machines + exhaustive short histories",
            "every curve-editing operation is applied to lasio and to a plain list model; after each step keys/values/items/index/data/int and name indexing must agree and the other LASFile of a pair must be unchanged; numeric and text curves, shared arrays, zero-row set_data, names that look like numbered keys",
            "arguments documented as ndarray are ndarrays; refused operations must only leave the state unchanged"),
    "C15": ("exhaustive reachable-state enumeration x probe keys against list/first-match reference",
            "every section state reachable by <= 4 operations (both case modes) is probed with present/absent/other-case/int/slice keys: "
            "membership, item, attribute, get, get(add=True), value assignment and deletion must agree as stated; also on copies of a section, on the ~Parameter section of a file actually read with mnemonic_case, with one item object held at two positions and with a name whose case mapping does not round-trip",
            "attribute probes skip names shadowing list/SectionItems attributes"),
    "C16": ("before/after snapshot (frame condition) + determinism + truthfulness oracle, corpus enumeration + Hypothesis",
            "full typed snapshot of the object before and after 1..3 writes: only the documented fields may change, repeated writes are byte-identical, "
            "and STRT/STOP/STEP of the output equal first/last/first-increment of the index whenever the index was created/edited or STOP disagreed",
            "objects that cannot be written are rejected; STRT/STOP/STEP may lie anywhere between the index value held in memory and the value the numeric format printed, +- half a unit of the fifth decimal ('to format precision')"),
    "C17": ("copy-equality and independence oracle over pickle protocols 0..5 and deepcopy, corpus + Hypothesis",
            "LASFile, sections and single items with duplicated/blank/case-variant mnemonics are copied by every method; copies must be observably equal "
            "(incl. original and session mnemonics, dtypes, write() text) and independent of the original",
            "value types compared by exact class"),
    "C18": ("view-vs-curves oracles (strict JSON, csv.reader, openpyxl, pandas, depth conversions), Hypothesis + corpus",
            "five sub-oracles parse each export with an independent reader and compare every header value and sample with the LASFile; unit spellings in any case for depth views",
            "Cyrillic spellings only as listed; sections with non-unique session names skipped in json/df views"),
    "C19": ("fault injection of junk lines with subsequence/non-interference oracle, Hypothesis over generated and example files",
            "1..5 junk lines (random and adversarial) at any position of ~V/~W/~P/custom: with the flag no exception, one warning per skipped line (with its line number), genuine items an "
            "unchanged ordered subsequence with at most as many additional items as junk lines, data identical; without the flag only LASHeaderError naming the line and its number",
            "steering names and '~' lines excluded (counted); must-warn set taken narrowly (neither '.' nor ':')"),
    "C20": ("exhaustive fault enumeration over every low-level I/O operation and every open() of a clean run",
            "for each (call kind, input) a clean run under an open()/io.open() tracker measures the operation count N; every k in 1..N and every open j is then run with an injected OSError; "
            "all handles lasio opened must be closed with the exception still alive, caller objects stay open; file names as str, Path and bytes; binary streams of the caller's tracked without proxy; two-call histories (any outcome of the first call, then write()/to_csv() of the same object to a caller's stream)",
            "handles are opened through builtins.open/io.open; close() itself never fails; third-party opens are not judged"),
}


def main():
    checks = []
    for pid in sorted(META):
        mod = __import__("checks.%s" % pid.lower(), fromlist=["x"])
        tech, text, note = META[pid]
        checks.append({
            "property_id": pid,
            "quick_cmd": "./check %s --tier quick" % pid,
            "thorough_cmd": "./check %s --tier thorough" % pid,
            "evidence_file": "/verif/evidence/%s.json" % pid,
            "replay_cmd_template": "./check %s --replay {path}" % pid,
            "engine": "hypothesis+enumeration" if pid != "C20" else "fault-enumeration",
            "level_claimed": {"category": mod.LEVEL, "text": text, "design_ref": "DESIGN.md section 5 / %s" % pid},
            "level_note": note,
            "technique": tech,
        })
    man = {
        "version": 1,
        "setup_cmd": "/venv/bin/python -m vlib.setup",
        "hooks": {
            "guard": "LASIO_VERIF",
            "enable": "no source hooks are needed: checks import /repo/lasio from the working tree in a fresh process "
                      "(LASIO_VERIF=1 is exported by vlib.env but lasio does not read it); the engine trace of C02 is a "
                      "run-time wrapper around lasio.reader.read_data_section_iterative_numpy_engine",
            "baseline_off_cmd": "/venv/bin/python /verif/tools/baseline.py",
            "source_commits": [],
            "add_only": True,
        },
        "engines": [
            {"name": "runner", "path": "vlib/runner.py", "serves_properties": sorted(META),
             "kind_free_text": "Hypothesis-driven and exhaustive parts sharded over 16 processes; per-root-cause failure "
                               "buckets; replay files; known-findings handling; evidence writer"},
            {"name": "filespec", "path": "vlib/lastext.py vlib/expect.py vlib/canon.py vlib/refparse.py vlib/models.py",
             "serves_properties": ["C02", "C04", "C05", "C06", "C07", "C08", "C09", "C10", "C19"],
             "kind_free_text": "structured LAS text generator with an independent expected-reading model"},
            {"name": "faultio", "path": "vlib/faultio.py", "serves_properties": ["C20"],
             "kind_free_text": "open()/io.open() tracker with k-th operation OSError injection"},
        ],
        "checks": checks,
        "not_applicable": [],
        "notes": "Exit codes: 0 held (KNOWN-FINDING lines are informational), 1 VIOLATION, 2 harness error. "
                 "VERIF_SEED selects the Hypothesis seed; PYTHONHASHSEED is pinned to 0 by the runner. "
                 "known_findings.json lists open findings (C09 D40, C11 D41, D44 and D49, C12 D44, C13 D23) and fixed ones.",
    }
    with open(os.path.join(VERIF, "MANIFEST.json"), "w") as f:
        json.dump(man, f, indent=1)
    print("MANIFEST.json written with %d checks" % len(checks))


if __name__ == "__main__":
    from vlib import env

    env.ensure()
    main()
