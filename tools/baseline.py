#!/venv/bin/python
"""Run the repository's pinned suite with the guard OFF and compare with /root/.vp/BASELINE.json:
every test in stable_pass must pass. Exit 0 iff so."""
import json, os, subprocess, sys, tempfile
import xml.etree.ElementTree as ET

env = dict(os.environ)
env.pop("LASIO_VERIF", None)
base = json.load(open("/root/.vp/BASELINE.json"))
with tempfile.TemporaryDirectory() as d:
    xml = os.path.join(d, "junit.xml")
    cmd = ["/venv/bin/python", "-m", "pytest", "-q", "-p", "no:cacheprovider", "--timeout=900",
           "--continue-on-collection-errors", "--junitxml=" + xml]
    r = subprocess.run(cmd, cwd="/repo", env=env, stdout=subprocess.PIPE, stderr=subprocess.STDOUT, text=True)
    passed = set()
    for tc in ET.parse(xml).getroot().iter("testcase"):
        if not any(ch.tag in ("failure", "error", "skipped") for ch in tc):
            passed.add("%s::%s" % (tc.get("classname"), tc.get("name")))
missing = [t for t in base["stable_pass"] if t not in passed]
print("baseline: %d/%d stable tests pass; %d passed in total" % (len(base["stable_pass"]) - len(missing), len(base["stable_pass"]), len(passed)))
for t in missing:
    print("NOT PASSING:", t)
sys.exit(1 if missing else 0)
