#!/bin/sh
# tools/quieton.sh <patch.diff> [tier] [ids...]
# False-alarm probe: apply a BEHAVIOUR-PRESERVING patch to a scratch worktree of /repo HEAD and run the checks
# against it. Every check must stay quiet (rc=0); rc=1 means either the patch does change behaviour or the
# check observes more than the property states; rc=2 means the check depends on an internal that moved.
patch=$(readlink -f "$1"); tier=${2:-quick}; shift; shift 2>/dev/null
ids=${*:-C01 C02 C03 C04 C05 C06 C07 C08 C09 C10 C11 C12 C13 C14 C15 C16 C17 C18 C19 C20}
cd "$(dirname "$0")/.." || exit 2
dir=$(mktemp -d /tmp/lasio-quiet.XXXXXX); rmdir "$dir"
git -C /repo worktree add -q --detach "$dir" HEAD || exit 2
git -C "$dir" apply "$patch" || { echo "patch does not apply"; git -C /repo worktree remove --force "$dir"; exit 2; }
out_dir=$(mktemp -d /tmp/verif-quiet-out.XXXXXX)
worst=0
for id in $ids; do
  out=$(LASIO_VERIF_REPO="$dir" VERIF_OUT="$out_dir" ./check $id --tier "$tier" 2>&1); rc=$?
  echo "$id rc=$rc | $(echo "$out" | grep -E '^VIOLATION|bucket:|HARNESS|harness' | head -3 | tr '\n' ' ' | cut -c1-300)"
  [ $rc -gt $worst ] && worst=$rc
done
git -C /repo worktree remove --force "$dir"; git -C /repo worktree prune; rm -rf "$out_dir"
exit $worst
