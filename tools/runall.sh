#!/bin/sh
# tools/runall.sh [tier]  - run every check once, one summary line each
tier=${1:-quick}
cd "$(dirname "$0")/.." || exit 2
rc_all=0
for id in C01 C02 C03 C04 C05 C06 C07 C08 C09 C10 C11 C12 C13 C14 C15 C16 C17 C18 C19 C20; do
  s=$(date +%s)
  out=$(./check $id --tier "$tier" 2>&1); rc=$?
  e=$(date +%s)
  echo "$id rc=$rc $((e-s))s $(echo "$out" | grep -c '^VIOLATION') violations, $(echo "$out" | grep -c '^KNOWN-FINDING') known | $(echo "$out" | tail -1 | cut -c1-140)"
  [ $rc -ne 0 ] && rc_all=1
done
exit $rc_all
