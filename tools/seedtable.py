#!/usr/bin/env python3
"""Regenerate the seeded-changes table in DESIGN.md (between the SEEDED markers) from seeded/*/meta.json."""
import glob, json, os, re
V = os.path.dirname(os.path.dirname(os.path.abspath(__file__)))
rows = []
for f in sorted(glob.glob(os.path.join(V, "seeded", "*", "meta.json"))):
    m = json.load(open(f))
    d = os.path.dirname(f)
    what = m.get("summary") or ""
    if not what and os.path.exists(os.path.join(d, "notes.md")):
        txt = [l.strip() for l in open(os.path.join(d, "notes.md")) if l.strip() and not l.startswith("#")]
        what = (txt[0] if txt else "")[:230]
    caught = ", ".join(m.get("caught_by") or []) or "**missed**"
    v = m.get("verdict") or ""
    if v.startswith("retired"):
        caught = "retired (made equivalent by a later fix, see meta.json)"
    elif v.startswith("not counted") and m["property"] not in (m.get("caught_by") or []):
        caught = "not counted (outside what the statement settles, see meta.json)"
    hist = " (after strengthening the generator; missed at first)" if m.get("history") else ""
    rows.append("| %s | %s | %s | demo %s, suite %s | %s%s |" % (m["name"], m["property"], what.replace("|", "/"),
                "ok" if m.get("demo_ok") else ("was ok before the later fix" if v else "NOT CONFIRMED"), "green" if m.get("suite_ok") else "?", caught, hist))
table = "| change | property | what it does | confirmed | caught by (quick tier) |\n|----|----|----|----|----|\n" + "\n".join(rows)
p = os.path.join(V, "DESIGN.md")
s = open(p).read()
if "SEEDED_TABLE_PLACEHOLDER" in s:
    s = s.replace("SEEDED_TABLE_PLACEHOLDER", "<!-- SEEDED-BEGIN -->\n" + table + "\n<!-- SEEDED-END -->")
else:
    s = re.sub(r"<!-- SEEDED-BEGIN -->.*<!-- SEEDED-END -->", "<!-- SEEDED-BEGIN -->\n" + table.replace("\\", "\\\\") + "\n<!-- SEEDED-END -->", s, flags=re.S)
open(p, "w").write(s)
print(len(rows), "rows")
