#!/bin/sh
# tools/mutants.sh <check-id> <mutant.diff>...   -> one line per mutant: CAUGHT / MISSED / ERROR
id=$1; shift
for m in "$@"; do
  case "$m" in /*) ;; *) m="$(pwd)/$m";; esac
  out=$(./tools/scratch.sh -p "$m" -- ./check "$id" 2>&1); rc=$?
  case $rc in
    1) echo "CAUGHT  $id $(basename $m)  $(echo "$out" | grep -c '^VIOLATION') bucket(s)";;
    0) echo "MISSED  $id $(basename $m)";;
    *) echo "ERROR   $id $(basename $m) rc=$rc"; echo "$out" | tail -5;;
  esac
done
