#!/bin/sh
# tools/reseedall.sh [STREAMS] : re-evaluate EVERY stored seeded change against the current checks (quick tier, seed 1, no
# suite run), STREAMS at a time; the checks named in each meta.json are the ones run. Log: /tmp/reseedall.<k>.log
N=${1:-3}
cd /verif
# names listed in the file given as $2 (one per line) are skipped (an interrupted run is continued that way)
ls -d seeded/*/ | sed 's#seeded/##; s#/##' | grep -v -x -F -f "${2:-/dev/null}" | awk -F- '{print $2, $0}' | sort -n | awk '{print $2}' > /tmp/reseedall.names  # oldest rounds first
k=0
while [ $k -lt $N ]; do
  ( awk -v n=$N -v k=$k 'NR % n == k' /tmp/reseedall.names | while read n; do
      id=${n%%-*}
      cks=$(/venv/bin/python -c "
import json,sys
m=json.load(open('/verif/seeded/$n/meta.json'))
print(','.join(sorted({k.split('@')[0] for k in m.get('checks',{})} | {'$id'})))")
      /venv/bin/python tools/seedeval.py $id seeded/$n/patch.diff seeded/$n/demo.py $n --no-tests --seeds 1 --checks $cks 2>&1 | grep -E "demo_ok|rc=" | cut -c1-200
    done >> /tmp/reseedall.$k.log 2>&1 ) &
  k=$((k+1))
done
wait
echo finished > /tmp/reseedall.done
