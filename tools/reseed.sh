#!/bin/sh
# tools/reseed.sh NAME... : re-evaluate stored seeded changes (no suite run) at seeds 1,2
for n in "$@"; do id=${n%%-*}; /venv/bin/python /verif/tools/seedeval.py $id /verif/seeded/$n/patch.diff /verif/seeded/$n/demo.py $n --no-tests --seeds 1,2 2>&1 | grep -E "demo_ok|rc=" | cut -c1-220; done
