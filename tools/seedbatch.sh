#!/bin/sh
# tools/seedbatch.sh <offset> [ids...] : evaluate /tmp/seed-<ID>-out/patchN.diff as <ID>-(N+offset)
off=$1; shift
ids=${*:-C01 C02 C03 C04 C05 C06 C07 C08 C09 C10 C11 C12 C13 C14 C15 C16 C17 C18 C19 C20}
for id in $ids; do for n in 1 2 3; do
  if [ -f /tmp/seed-$id-out/patch$n.diff ] && [ -f /tmp/seed-$id-out/demo$n.py ]; then
    echo "$id $n"
  fi
done; done | xargs -P 3 -L 1 sh -c 'id=$0; n=$1; m=$((n+'"$off"')); /venv/bin/python /verif/tools/seedeval.py $id /tmp/seed-$id-out/patch$n.diff /tmp/seed-$id-out/demo$n.py $id-$m --notes /tmp/seed-$id-out/notes$n.md 2>&1 | grep -E "demo_ok|rc=" | cut -c1-200'
