#!/bin/sh
# tools/scratch.sh [-c COMMIT] [-p PATCH]... -- <command...>
# Run a command against a scratch worktree of /repo (at COMMIT, default HEAD, with PATCHes applied).
# The worktree is removed afterwards. The command sees LASIO_VERIF_REPO=<worktree>; check output goes
# to $VERIF_OUT (default /tmp/verif-scratch-out), never to /verif/evidence.
commit=HEAD
patches=""
while [ $# -gt 0 ]; do
  case "$1" in
    -c) commit="$2"; shift 2;;
    -p) patches="$patches $2"; shift 2;;
    --) shift; break;;
    *) break;;
  esac
done
dir=$(mktemp -d /tmp/lasio-scratch.XXXXXX)
rmdir "$dir"
git -C /repo worktree add -q --detach "$dir" "$commit" || exit 2
for p in $patches; do
  git -C "$dir" apply "$p" || { echo "patch $p does not apply" >&2; git -C /repo worktree remove --force "$dir"; exit 2; }
done
LASIO_VERIF_REPO="$dir" "$@"
rc=$?
git -C /repo worktree remove --force "$dir"
git -C /repo worktree prune
exit $rc
