"""known_findings.json: read-only at run time.

Entry: {"property": "C11", "id": "C11-dlm-writer", "status": "open"|"fixed",
        "bucket": "<bucket string produced by the check's classifier>",
        "what": "...", "replay": "replays/C11/known-....json", "commit": "<sha>" (fixed only)}

An *open* entry makes violations whose bucket equals its bucket non-fatal (KNOWN-FINDING
line, exit 0).  A *fixed* entry suppresses nothing."""
import json
import os

from .env import VERIF

PATH = os.path.join(VERIF, "known_findings.json")


def load():
    if not os.path.exists(PATH):
        return []
    with open(PATH) as f:
        data = json.load(f)
    return data.get("findings", [])


def open_for(pid):
    return {f["bucket"]: f for f in load() if f["property"] == pid and f.get("status") == "open"}


def is_open(finding_id):
    return any(f["id"] == finding_id and f.get("status") == "open" for f in load())
