"""FileSpec -> expected canonical content, from the documented reading rules only (no lasio)."""
import math

from . import canon, lastext, models

DEFAULT_VERSION = [("VERS", "", ("f", 2.0), "CWLS log ASCII Standard -VERSION 2.0"),
                   ("WRAP", "", ("s", "NO"), "One line per depth step"),
                   ("DLM", "", ("s", "SPACE"), "Column Data Section Delimiter")]
DEFAULT_WELL = [("STRT", "m", ("f", float("nan")), "START DEPTH"), ("STOP", "m", ("f", float("nan")), "STOP DEPTH"),
                ("STEP", "m", ("f", float("nan")), "STEP"), ("NULL", "", ("f", -9999.25), "NULL VALUE"),
                ("COMP", "", ("s", ""), "COMPANY"), ("WELL", "", ("s", ""), "WELL"), ("FLD", "", ("s", ""), "FIELD"),
                ("LOC", "", ("s", ""), "LOCATION"), ("PROV", "", ("s", ""), "PROVINCE"),
                ("CNTY", "", ("s", ""), "COUNTY"), ("STAT", "", ("s", ""), "STATE"),
                ("CTRY", "", ("s", ""), "COUNTRY"), ("SRVC", "", ("s", ""), "SERVICE COMPANY"),
                ("DATE", "", ("s", ""), "DATE"), ("UWI", "", ("s", ""), "UNIQUE WELL ID"),
                ("API", "", ("s", ""), "API NUMBER")]


def _defaults(rows):
    return {"items": [dict(orig=m, sess=m, unit=u, value=v, descr=d) for m, u, v, d in rows]}


def case_map(name, mnemonic_case):
    if mnemonic_case == "upper":
        return name.upper()
    if mnemonic_case == "lower":
        return name.lower()
    return name


def section_key(sec):
    k = sec["kind"]
    if k in lastext.KEYS:
        return lastext.KEYS[k]
    return sec["title"].strip()[1:]


def expected_items(sec, mnemonic_case="upper", include=("item", "np")):
    """Expected items of one header-items section."""
    kind = sec["kind"]
    rows = []
    for ln in sec["lines"]:
        if ln["t"] not in include:
            continue
        name = case_map(ln["m"], mnemonic_case)
        if ln["t"] == "np":
            unit, vtxt, descr = "", ln["v"], ""
        else:
            unit, vtxt, descr = ln["u"], ln["v"], ln["d"]
        if kind == "C":
            val = ("s", vtxt)
        elif kind == "P":
            val = canon.cval_from_text(vtxt, True)
        else:
            val = canon.cval_from_text(vtxt, name.upper() not in ("API", "UWI"))
        rows.append([name, unit, val, descr])
    sess = models.session_names([r[0] for r in rows], ci=(mnemonic_case != "preserve"))
    return [dict(orig=r[0], sess=s, unit=r[1], value=r[2], descr=r[3]) for r, s in zip(rows, sess)]


def data_tokens(sec):
    toks = []
    for ln in sec["lines"]:
        if ln["t"] == "row":
            toks.extend(ln["toks"])
    return toks


def expected(spec, mnemonic_case="upper", null_policy="strict", token_value=float):
    """Canonical content a conforming reader returns for `spec`."""
    secs = {"Version": _defaults(DEFAULT_VERSION), "Well": _defaults(DEFAULT_WELL),
            "Curves": {"items": []}, "Parameter": {"items": []}, "Other": {"text": []}}
    null = None
    a_sec = None
    for sec in spec["sections"]:
        k = sec["kind"]
        if k == "A":
            a_sec = sec
            continue
        key = section_key(sec)
        if k == "O":
            secs[key] = {"text": [ln["text"].strip() for ln in sec["lines"]]}
            continue
        secs[key] = {"items": expected_items(sec, mnemonic_case)}
    for it in secs["Well"]["items"]:
        if it["sess"].upper() == "NULL" and it["value"][0] in ("i", "f"):
            null = float(it["value"][1])
    out = {"sections": secs}
    curves = secs["Curves"]["items"]
    if a_sec is not None:
        toks = data_tokens(a_sec)
        c = a_sec.get("ncols") or 0
        cols = []
        if toks and c:
            assert len(toks) % c == 0, "spec: token count not a multiple of ncols"
            r = len(toks) // c
            for j in range(c):
                col = []
                for i in range(r):
                    tok = toks[i * c + j]
                    if len(tok) >= 2 and tok[0] == tok[-1] and tok[0] in "\"'":
                        tok = toks[i * c + j] = tok[1:-1]  # a quoted cell: its content is the text between the quotes
                        col.append(tok)
                        continue
                    try:
                        col.append(token_value(tok))
                    except ValueError:
                        col.append(tok)
                cols.append(col)
            # text columns: a column is text when its first cell is not numeric
            for j, col in enumerate(cols):
                if isinstance(col[0], str):
                    cols[j] = [toks[i * c + j] for i in range(r)]
                elif any(isinstance(x, str) for x in col):
                    cols[j] = None  # mixed column: behaviour not specified
            if null_policy == "strict" and null is not None:
                for j in range(1, c):
                    if cols[j] is not None and not isinstance(cols[j][0], str):
                        cols[j] = [float("nan") if x == null else x for x in cols[j]]
            d = len(curves)
            if c > d:
                originals = [it["orig"] for it in curves] + [""] * (c - d)
                m = models.NameModel(ci=(mnemonic_case != "preserve"))
                m.items = [[it["orig"], it["sess"]] for it in curves]
                for _ in range(c - d):
                    m.append("")
                sess = m.sessions()
                curves = [dict(orig=o, sess=s, unit=(curves[i]["unit"] if i < d else ""),
                               value=(curves[i]["value"] if i < d else ("s", "")),
                               descr=(curves[i]["descr"] if i < d else "")) for i, (o, s) in
                          enumerate(zip(originals, sess))]
                secs["Curves"] = {"items": curves}
            elif d > c:
                cols = cols + [[float("nan")] * r for _ in range(d - c)]
        else:
            cols = [[] for _ in curves]
        out["data"] = cols
    else:
        out["data"] = [[] for _ in curves]
    return out


def isnan(x):
    return isinstance(x, float) and math.isnan(x)
