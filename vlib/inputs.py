"""Input sources shared by the write-side checks (C11, C12, C16): example corpus, LASFile descriptions, FileSpecs.

A source is one of
   {"file": "<path relative to tests/examples>"}
   {"desc": <vlib.build description>}
   {"spec": <FileSpec>}
load(source, **read_kwargs) returns a fresh LASFile (or a Raised)."""
import glob
import os

from hypothesis import strategies as st

from . import build, lastext
from .api import REPO, attempt, is_raised
from .filecheck import read_text

EXAMPLES = os.path.join(REPO, "tests", "examples")


def corpus_files():
    files = []
    for pat in ("*.las", "*.LAS", "*/*.las", "*/*.LAS"):
        files.extend(glob.glob(os.path.join(EXAMPLES, pat)))
    return sorted(set(os.path.relpath(f, EXAMPLES) for f in files))


def load(source, **kw):
    import lasio

    if "file" in source:
        return attempt(lasio.read, os.path.join(EXAMPLES, source["file"]), **kw)
    if "desc" in source:
        return attempt(build.build_las, source["desc"])
    return read_text(lastext.render(source["spec"]), **kw)


def describe(source):
    if "file" in source:
        return "file " + source["file"]
    if "desc" in source:
        return "built LASFile %r" % {k: v for k, v in source["desc"].items() if k in ("well", "params", "version")}
    return "generated text\n" + lastext.render(source["spec"])[:1200]


def kind(source):
    return "file" if "file" in source else "desc" if "desc" in source else "spec"


WRITER_OPTS = st.fixed_dictionaries({}, optional={
    "version": st.sampled_from([1.2, 2]),
    "wrap": st.booleans(),
    "fmt": st.sampled_from(["%.5f", "%.3f", "%.10g", "%.2f", "%10.4f", "%.8e"]),
    "len_numeric_field": st.sampled_from([None, -1, 12, 18]),
    "spacer": st.sampled_from([" ", "  ", "\t"]),
    "lhs_spacer": st.sampled_from([" ", "", "   "]),
    "data_width": st.sampled_from([79, 60, 120, 200]),
    "header_width": st.sampled_from([60, 40, 80]),
    "data_section_header": st.sampled_from(["~ASCII", "~A", "~A log data"]),
    "mnemonics_header": st.booleans(),
    "column_fmt": st.sampled_from([{"0": "%.0f"}, {"0": "%.1f"}, {"0": "%.7f"}, {"0": "%.3e"}]),
})


@st.composite
def descs(draw, odd_units=True, text_curves=True, nan=True):
    """LASFile descriptions: the C03 header generator plus odd units, NaN samples and text curves."""
    from checks import c03

    base = draw(c03.cases())
    desc = base["desc"]
    nrows = len(desc["curves"][0][4])
    if odd_units and draw(st.integers(0, 2)) == 0:
        odd = st.sampled_from([".1IN", "hh:mm", "0.1IN", "m.s", "1000 lbf", "(m)", "[ft]", "1000", "12", "%", "us/ft", ".5m"])
        for sec in ("well", "params"):
            for row in desc[sec]:
                if row[0].strip() and draw(st.integers(0, 3)) == 0:
                    row[1] = draw(odd)
        for cv in desc["curves"]:
            if cv[0].strip() and draw(st.integers(0, 3)) == 0:
                cv[1] = draw(odd)
    if draw(st.integers(0, 3)) == 0:
        # an index with more digits than a coarse format prints: the header of the output must agree with its own data
        start, step = draw(st.sampled_from([(1670.123456, 0.152412), (1.004, 1.0), (-12.3456789, 0.5000004), (100.0049, -0.25)]))
        desc["curves"][0][4] = [repr(start + i * step) for i in range(nrows)]
    if draw(st.booleans()):
        # samples with more digits than any format prints: what is recovered then depends on the numeric format only
        for cv in desc["curves"][1:]:
            for i in range(nrows):
                if draw(st.booleans()):
                    cv[4][i] = draw(st.sampled_from(["123.456789", "0.123456", "-45.678901", "2650.55555", "0.001234", "99999.99999",
                                                     "-0.5", "7.25", "1234567.891"]))
    if nan:
        for cv in desc["curves"][1:]:
            for i in range(nrows):
                if draw(st.integers(0, 5)) == 0:
                    cv[4][i] = "nan"
    if text_curves and len(desc["curves"]) > 1 and draw(st.integers(0, 4)) == 0:
        cv = desc["curves"][-1]
        cv[4] = [draw(st.sampled_from(["abc", "LIME", "x1", "N/A", "sand stone", "a b", "", "two  blanks", "PAD   ", "it's", 'q"uote', "5'6\"", "SAND-SHALE", "LIME-STONE-DOLOMITE", "a\tb", "7-8", "2018-05-22", "1,2,3"])) for _ in range(nrows)]
        if len(cv) > 5:
            cv[5] = "s"
        else:
            cv.append("s")
    return desc
