"""Environment bootstrap: make sure lasio is imported from the tree under test and that
hypothesis is importable.  Imported before anything touches lasio."""
import importlib
import os
import subprocess
import sys

VERIF = os.path.dirname(os.path.dirname(os.path.abspath(__file__)))
REPO = os.path.realpath(os.environ.get("LASIO_VERIF_REPO", "/repo"))
DEPS = os.path.join(VERIF, ".deps")
WHEELS = "/opt/veriftools/wheels"
GUARD = "LASIO_VERIF"


class HarnessError(Exception):
    """Anything that is the fault of the verification machinery (exit 2)."""


def _have(mod):
    try:
        importlib.import_module(mod)
        return True
    except Exception:
        return False


def ensure(install=True):
    """Put the tree under test first on sys.path; install hypothesis offline if absent."""
    if REPO not in sys.path[:1]:
        sys.path.insert(0, REPO)
    if os.path.isdir(DEPS) and DEPS not in sys.path:
        sys.path.append(DEPS)
    if not _have("hypothesis"):
        if not install:
            raise HarnessError("hypothesis not importable")
        os.makedirs(DEPS, exist_ok=True)
        cmd = [sys.executable, "-m", "pip", "install", "--quiet", "--no-index",
               "--find-links", WHEELS, "--target", DEPS, "hypothesis"]
        r = subprocess.run(cmd, stdout=subprocess.PIPE, stderr=subprocess.STDOUT, text=True)
        if r.returncode != 0:
            raise HarnessError("offline install of hypothesis failed:\n" + r.stdout)
        if DEPS not in sys.path:
            sys.path.append(DEPS)
        importlib.invalidate_caches()
        if not _have("hypothesis"):
            raise HarnessError("hypothesis still not importable after install")
    os.environ[GUARD] = "1"
    import lasio  # noqa

    root = os.path.realpath(os.path.dirname(os.path.dirname(lasio.__file__)))
    if root != REPO:
        raise HarnessError("lasio imported from %s, expected %s" % (root, REPO))
    import logging

    # lasio logs a lot at warning level on odd inputs; keep the check output readable.
    logging.getLogger("lasio").setLevel(logging.ERROR)
    return lasio
