"""Reference recognisers written from the LAS documentation and the property texts.
Nothing here imports or shares code with lasio.

classify(text)      three-valued numeric-literal classifier (property C08)
parse_line(line,..) procedural header-line grammar (properties C04, C19)
"""

INT64_MIN = -(2 ** 63)
INT64_MAX = 2 ** 63 - 1
DIGITS = "0123456789"


def _scan_digits(s, i):
    j = i
    while j < len(s) and s[j] in DIGITS:
        j += 1
    return j


def _literal_shape(s):
    """Return (kind, normalised) where kind is
    'int'    [+-]?D+
    'strict' [+-]?D+ ([.,]D+)? ([eE][+-]?D+)?   with a fraction or an exponent
    'loose'  as strict but with an empty integer or fraction part next to the mark ('5.', '.5')
    None     not a decimal literal
    normalised uses '.' as the decimal mark."""
    n = len(s)
    i = 0
    if i < n and s[i] in "+-":
        i += 1
    j = _scan_digits(s, i)
    int_digits = j - i
    i = j
    has_mark = False
    frac_digits = 0
    if i < n and s[i] in ".,":
        has_mark = True
        i += 1
        j = _scan_digits(s, i)
        frac_digits = j - i
        i = j
    if int_digits == 0 and frac_digits == 0:
        return None, None
    has_exp = False
    if i < n and s[i] in "eE":
        k = i + 1
        if k < n and s[k] in "+-":
            k += 1
        j = _scan_digits(s, k)
        if j == k:
            return None, None
        has_exp = True
        i = j
    if i != n:
        return None, None
    norm = s.replace(",", ".")
    if not has_mark and not has_exp:
        return "int", norm
    if has_mark and (int_digits == 0 or frac_digits == 0):
        return "loose", norm
    return "strict", norm


def classify(text):
    """-> ('int', n) | ('float', x) | ('str', text) | ('either', x)

    int/float: the statement obliges a number equal to n/x; str: must stay verbatim;
    either: '5.', '.5' - the statement's "optional fraction" does not settle whether a bare
    decimal mark is a literal; a number equal to x or the verbatim text are both accepted."""
    if not isinstance(text, str):
        raise TypeError(text)
    if not text.isascii():
        return ("str", text)
    kind, norm = _literal_shape(text)
    if kind is None:
        return ("str", text)
    if kind == "int":
        n = int(norm)
        if INT64_MIN <= n <= INT64_MAX:
            return ("int", n)
        x = float(norm)
        if x in (float("inf"), float("-inf")):
            return ("str", text)
        return ("float", x)
    x = float(norm)
    if x != x or x in (float("inf"), float("-inf")):
        return ("str", text)
    if kind == "loose":
        return ("either", x)
    return ("float", x)


# ---------------------------------------------------------------------------------------
# header line grammar


class Unparsable(Exception):
    pass


def _is_blank(ch):
    return ch in " \t"


def _clock_colon(s, i):
    """Is the colon at s[i] a clock-time colon: ' HH' (00-23 as lasio documents: first digit 0-2,
    second 0-3) or ' hh'/' HH' before it and MM (00-59) or 'mm'/'MM' after it."""
    before = s[max(0, i - 3):i]
    after = s[i + 1:i + 3]
    ok_before = len(before) == 3 and before[0] == " " and (
        (before[1] in "012" and before[2] in "0123") or before[1:] in ("hh", "HH"))
    ok_after = len(after) == 2 and ((after[0] in "012345" and after[1] in DIGITS) or after in ("mm", "MM"))
    return ok_before, ok_after


def parse_line(line, section=None):
    """Reference parse of one header line -> dict(name, unit, value, descr), all stripped.

    section: 'Version' | 'Well' | 'Curves' | 'Parameter' | other/None.
    Follows docs/source/header-section.rst:
      * no period before the first colon  ->  NAME : VALUE
      * otherwise name = text up to the first period; unit = the run of non-blank characters
        right after it (a purely numeric unit followed by exactly one blank keeps the next token:
        `1000 lbf`); the rest up to the separating colon is the value, what follows the description
      * separating colon: the last colon; in ~Parameter the first colon that is not a clock-time colon
      * no colon at all: no description
      * ~Curves: a mnemonic ending in '.' directly followed by the delimiter ('..') keeps its dot
    Raises Unparsable when the line has neither a period nor a colon."""
    s = line
    first_colon = s.find(":")
    has_colon = first_colon >= 0
    if has_colon and "." not in s[:first_colon]:
        return dict(name=s[:first_colon].strip(), unit="", value=s[first_colon + 1:].strip(), descr="")
    p = s.find(".")
    if p < 0:
        raise Unparsable(line)
    # leading period is tolerated (`.NAME.`)
    start = 0
    if s.startswith("."):
        start = 1
        p = s.find(".", 1)
        if p < 0:
            raise Unparsable(line)
    name = s[start:p]
    rest = s[p + 1:]
    # unit
    i = 0
    while i < len(rest) and not rest[i].isspace():
        i += 1
    unit = rest[:i]
    if unit and all(c in DIGITS for c in unit) and i < len(rest) and rest[i].isspace():
        # numeric unit + one whitespace: keeps the following token
        j = i + 1
        while j < len(rest) and not rest[j].isspace():
            j += 1
        unit = rest[:j]
        i = j
    tail = rest[i:]
    if ":" in tail:
        if section == "Parameter":
            k = None
            for idx, ch in enumerate(tail):
                if ch == ":":
                    b, a = _clock_colon(tail, idx)
                    if not b and not a:
                        k = idx
                        break
            if k is None:
                k = tail.rfind(":")
        else:
            k = tail.rfind(":")
        value, descr = tail[:k], tail[k + 1:]
    elif ":" in unit:
        # the only colon sits inside the unit token; lasio documents colons in units (hh:mm) only
        # together with a separating colon later on the line.
        raise Unparsable(line)
    else:
        value, descr = tail, ""
    unit = unit.strip()
    if unit.endswith("."):
        unit = unit.strip(".")
    return dict(name=name.strip(), unit=unit, value=value.strip(), descr=descr.strip())
