"""./check <ID> [--tier quick|thorough] [--replay FILE] [--seed N] [--jobs N]

exit 0: property held on everything explored (known findings are reported, not fatal)
exit 1: a line `VIOLATION property=<id> replay=<path>` was printed for each new root cause
exit 2: harness error (never a VIOLATION line)
"""
import argparse
import glob
import hashlib
import importlib
import json
import multiprocessing
import os
import sys
import time
import traceback

from . import env
from .api import Outcome, Stats, HarnessError

VERIF = env.VERIF
# Runs against a scratch tree (sensitivity tests) must not touch the committed evidence/replays.
OUT = os.environ.get("VERIF_OUT") or (VERIF if env.REPO == "/repo" else "/tmp/verif-scratch-out")


def log(*a):
    print(*a, file=sys.stderr, flush=True)


def load_check(pid):
    return importlib.import_module("checks.%s" % pid.lower())


def get_parts(mod, tier):
    return list(mod.parts(tier))


# ----------------------------------------------------------------------------------
# worker side


def _mk_settings(n, steps=None):
    from hypothesis import settings, HealthCheck, Phase

    kw = dict(
        max_examples=max(1, n),
        database=None,
        deadline=None,
        derandomize=False,
        report_multiple_bugs=False,
        phases=[Phase.generate],
        suppress_health_check=[HealthCheck.too_slow, HealthCheck.data_too_large,
                               HealthCheck.filter_too_much, HealthCheck.large_base_example],
    )
    if steps is not None:
        kw["stateful_step_count"] = steps
    return settings(**kw)


class Ctx(object):
    def __init__(self, mod, part, tier, seed, shard, nshards):
        self.mod = mod
        self.part = part
        self.part_ix = None
        self.tier = tier
        self.seed = seed
        self.shard = shard
        self.nshards = nshards
        self.stats = Stats()
        self.t0 = time.time()
        b = part.budget_s.get(tier) if isinstance(part.budget_s, dict) else part.budget_s
        self.deadline = (self.t0 + b) if b else None

    def over_budget(self):
        return self.deadline is not None and time.time() > self.deadline

    def record(self, case, out, distinct=False):
        self.stats.record(case, out, distinct_by_construction=distinct, part=self.part_ix)


def run_task(task):
    pid, part_ix, tier, seed, shard, nshards = task
    try:
        env.ensure(install=False)
        mod = load_check(pid)
        part = get_parts(mod, tier)[part_ix]
        ctx = Ctx(mod, part, tier, seed, shard, nshards)
        ctx.part_ix = part_ix
        oracle = getattr(part, "oracle", None) or getattr(mod, "oracle", None)
        exhaustive = False
        if part.kind == "hyp":
            import hypothesis
            from hypothesis import given

            n = part.count(tier)
            n_here = n // nshards + (1 if shard < n % nshards else 0)
            if n_here > 0:
                strat = part.strategy()

                def body(case):
                    if ctx.over_budget():
                        ctx.stats.skipped_budget += 1
                        return
                    ctx.record(case, oracle(case))

                test = given(strat)(body)
                test = _mk_settings(n_here)(test)
                test = hypothesis.seed(seed * 1000003 + shard * 7919 + part_ix)(test)
                test()
        elif part.kind == "enum":
            exhaustive = True
            for i, case in enumerate(part.cases(tier)):
                if i % nshards != shard:
                    continue
                if ctx.over_budget():
                    ctx.stats.skipped_budget += 1
                    exhaustive = False
                    continue
                ctx.record(case, oracle(case), distinct=True)
        elif part.kind == "machine":
            import hypothesis
            from hypothesis.stateful import run_state_machine_as_test

            n = part.count(tier)
            n_here = n // nshards + (1 if shard < n % nshards else 0)
            if n_here > 0:
                cls = part.factory(ctx)
                cls = hypothesis.seed(seed * 1000003 + shard * 7919 + part_ix)(cls)
                run_state_machine_as_test(cls, settings=_mk_settings(n_here, part.steps[tier]))
        else:
            part.fn(ctx)
            exhaustive = bool(getattr(ctx, "exhaustive", False))
        st = ctx.stats
        if st.skipped_budget:
            st.notes.append("part %s: wall budget reached, %d cases skipped (inconclusive for those)"
                            % (part.name, st.skipped_budget))
        st.parts[part.name] = dict(evaluations=st.evaluations, wall_s=round(time.time() - ctx.t0, 2),
                                   exhaustive=exhaustive, shards=1)
        return ("ok", st)
    except BaseException as e:  # noqa
        frames = "".join(traceback.format_tb(e.__traceback__)[-5:])
        return ("error", "part %s/%s shard %d: %s: %s\n%s" % (task[0], task[1], task[4], type(e).__name__, str(e)[:600], frames))


# ----------------------------------------------------------------------------------
# driver side


def replay_files(pid):
    d = os.path.join(VERIF, "replays", pid)
    out = []
    for pat in ("known-*.json", "reg-*.json", "seed-*.json"):
        out.extend(sorted(glob.glob(os.path.join(d, pat))))
    return out


def run_replays(mod, pid, stats):
    """Replay committed cases in-process. Returns {path: [buckets]}."""
    seen = {}
    for path in replay_files(pid):
        with open(path) as f:
            rec = json.load(f)
        oracle = _oracle_for(mod, rec)
        out = oracle(rec["case"])
        out.cls("replay-file")
        stats.record(rec["case"], out)
        seen[path] = [b for b, _ in out.violations]
    return seen


def _oracle_for(mod, rec):
    name = rec.get("oracle")
    if name:
        return getattr(mod, name)
    return mod.oracle


def write_replay(pid, bucket, failure, mod):
    d = os.path.join(OUT, "replays", pid)
    os.makedirs(d, exist_ok=True)
    h = hashlib.blake2b(bucket.encode(), digest_size=5).hexdigest()
    path = os.path.join(d, "fail-%s.json" % h)
    rec = dict(property=pid, bucket=bucket, message=failure["message"], case=failure["case"],
               occurrences=failure["count"])
    oname = getattr(mod, "oracle_name_for_bucket", None)
    if oname:
        o = oname(bucket)
        if o:
            rec["oracle"] = o
    with open(path, "w") as f:
        json.dump(rec, f, indent=1, sort_keys=True)
    return path


def shrink_failure(mod, parts, bucket, failure, seed, budget_s):
    """Shrink the smallest collected case of a new bucket with Hypothesis (Hyp parts only): the replay file then holds
    a minimal reproduction. Bounded by examples and wall time; a failed or inconclusive shrink keeps the collected case."""
    ix = failure.get("part")
    if ix is None or ix >= len(parts) or parts[ix].kind != "hyp":
        return
    part = parts[ix]
    oracle = getattr(part, "oracle", None) or getattr(mod, "oracle", None)
    try:
        import random as _random

        import hypothesis
        from hypothesis import HealthCheck, settings
        from .api import case_size

        t0 = time.time()

        def same_bucket(case):
            if time.time() - t0 > budget_s:
                return False
            return any(b == bucket for b, _ in oracle(case).violations)

        st_ = settings(max_examples=3000, database=None, deadline=None, suppress_health_check=list(HealthCheck))
        best = hypothesis.find(part.strategy(), same_bucket, settings=st_, random=_random.Random(seed))
        out = oracle(best)
        msgs = [m for b, m in out.violations if b == bucket]
        if msgs and case_size(best) <= failure["size"]:
            failure.update(case=best, message=msgs[0], size=case_size(best), shrunk=True)
    except Exception as e:  # noqa - NoSuchExample, budget, anything: keep the collected case
        failure["shrink_note"] = "%s: %s" % (type(e).__name__, str(e)[:100])


def write_evidence(mod, pid, tier, seed, stats, wall, nviol, known_lines, extra=None):
    cov = dict(
        evaluations=stats.evaluations,
        distinct_nontrivial=stats.distinct_nontrivial,
        rule=mod.RULE,
        samples=stats.samples[:4],
        classes=dict(sorted(stats.classes.items())),
        rejected_inputs=stats.rejected,
        excluded_known=stats.excluded,
        parts=stats.parts,
        exhaustive=bool(stats.parts) and all(p.get("exhaustive") for p in stats.parts.values()),
        exhaustive_subdomains=[n for n, p in stats.parts.items() if p.get("exhaustive")],
        known_findings_reported=known_lines,
        notes=stats.notes,
    )
    if extra:
        cov.update(extra)
    ev = dict(
        property_id=pid,
        tier=tier,
        seed=seed,
        level=mod.LEVEL,
        coverage=cov,
        assumptions=list(getattr(mod, "ASSUMPTIONS", [])),
        wall_s=round(wall, 2),
        violations=nviol,
    )
    d = os.path.join(OUT, "evidence")
    os.makedirs(d, exist_ok=True)
    tmp = os.path.join(d, ".%s.json.tmp" % pid)
    with open(tmp, "w") as f:
        json.dump(ev, f, indent=1, sort_keys=True, default=str)
    os.replace(tmp, os.path.join(d, "%s.json" % pid))


def main(argv=None):
    ap = argparse.ArgumentParser(prog="check")
    ap.add_argument("pid")
    ap.add_argument("--tier", default=os.environ.get("VERIF_TIER") or "quick", choices=["quick", "thorough"])
    ap.add_argument("--replay")
    ap.add_argument("--seed", type=int, default=None)
    ap.add_argument("--jobs", type=int, default=int(os.environ.get("VERIF_JOBS", "16")))
    ap.add_argument("--only", help="run only parts whose name contains this text")
    args = ap.parse_args(argv)

    if os.environ.get("PYTHONHASHSEED") != "0":
        os.environ["PYTHONHASHSEED"] = "0"
        os.execv(sys.executable, [sys.executable, "-m", "vlib.runner"] + (argv or sys.argv[1:]))

    pid = args.pid.upper()
    seed = args.seed
    if seed is None:
        try:
            seed = int(os.environ.get("VERIF_SEED", "1") or "1")
        except ValueError:
            seed = 1
    t0 = time.time()
    try:
        env.ensure()
        mod = load_check(pid)
        from . import findings

        known = findings.open_for(pid)

        if args.replay:
            with open(args.replay) as f:
                rec = json.load(f)
            out = _oracle_for(mod, rec)(rec["case"])
            if not out.violations:
                print("replay %s: property holds on this case" % args.replay)
                return 0
            rc = 0
            for b, m in out.violations:
                if b in known:
                    print("KNOWN-FINDING: property=%s %s" % (pid, known[b]["what"]))
                else:
                    rc = 1
                    print("VIOLATION property=%s replay=%s" % (pid, os.path.abspath(args.replay)))
                print("  bucket: %s\n  %s" % (b, m.replace("\n", "\n  ")))
            return rc

        for stale in glob.glob(os.path.join(OUT, "replays", pid, "fail-*.json")):
            os.remove(stale)
        stats = Stats()
        tr = time.time()
        run_replays(mod, pid, stats)
        stats.parts["replay-files"] = dict(evaluations=stats.evaluations, wall_s=round(time.time() - tr, 2),
                                           exhaustive=False, shards=1)

        parts = get_parts(mod, args.tier)
        tasks = []
        for ix, p in enumerate(parts):
            if args.only and args.only not in p.name:
                continue
            ns = max(1, min(args.jobs, p.max_shards))
            if p.kind in ("hyp", "machine"):
                ns = max(1, min(ns, p.count(args.tier) // 20 or 1))
            for s in range(ns):
                tasks.append((pid, ix, args.tier, seed, s, ns))
        errors = []
        if tasks:
            ctxm = multiprocessing.get_context("fork")
            with ctxm.Pool(processes=max(1, min(args.jobs, len(tasks)))) as pool:
                for status, payload in pool.imap_unordered(run_task, tasks, chunksize=1):
                    if status == "ok":
                        stats.merge(payload)
                    else:
                        errors.append(payload)
        if errors:
            seen = set()
            for e in errors:
                sig = e.split(": ", 1)[1].split("\n")[0] if ": " in e else e
                if sig in seen:
                    continue
                seen.add(sig)
                log("HARNESS ERROR " + e)
            log("HARNESS ERROR %d task(s) failed" % len(errors))
            return 2

        new = {b: f for b, f in stats.failures.items() if b not in known}
        known_lines = []
        for b, f in sorted(stats.failures.items()):
            if b in known:
                line = "KNOWN-FINDING: property=%s %s" % (pid, known[b]["what"])
                known_lines.append(line)
                print(line)
        shrink_budget = float(os.environ.get("VERIF_SHRINK_S", "20" if args.tier == "quick" else "300"))
        t_shrink = time.time()
        for b, f in sorted(new.items()):
            left = shrink_budget - (time.time() - t_shrink)
            if left > 1:
                shrink_failure(mod, parts, b, f, seed, left)
        for b, f in sorted(new.items()):
            path = write_replay(pid, b, f, mod)
            print("VIOLATION property=%s replay=%s" % (pid, path))
            print("  bucket: %s (%d occurrences)\n  %s" % (b, f["count"], f["message"].replace("\n", "\n  ")))
        wall = time.time() - t0
        extra = None
        if hasattr(mod, "evidence_extra"):
            extra = mod.evidence_extra(stats)
        write_evidence(mod, pid, args.tier, seed, stats, wall, len(new), known_lines, extra)
        vac = getattr(mod, "vacuity", None)
        if vac:
            msg = vac(stats)
            if msg:
                log("HARNESS ERROR vacuous run: " + msg)
                return 2
        log("%s %s seed=%d: %d evaluations, %d distinct non-trivial, %d rejected, %d new violation bucket(s), %.1fs"
            % (pid, args.tier, seed, stats.evaluations, stats.distinct_nontrivial, stats.rejected, len(new), wall))
        return 1 if new else 0
    except HarnessError as e:
        log("HARNESS ERROR %s" % e)
        return 2
    except Exception:
        log("HARNESS ERROR " + traceback.format_exc())
        return 2


if __name__ == "__main__":
    sys.exit(main())
