"""Shared oracle step: read a FileSpec's text with lasio and compare with the expected reading."""
import io

from . import canon, expect, lastext
from .api import attempt, is_raised


def read_text(text, **kw):
    import lasio

    return attempt(lasio.read, io.StringIO(text), **kw)


def read_spec(spec, **kw):
    return read_text(lastext.render(spec), **kw)


def compare_with_expected(las, spec, mnemonic_case="upper", null_policy="strict", **diffkw):
    exp = expect.expected(spec, mnemonic_case=mnemonic_case, null_policy=null_policy)
    got = canon.from_las(las)
    # columns whose expected content is unspecified (mixed text/number) are not compared
    if "data" in exp and "data" in got and len(exp["data"]) == len(got["data"]):
        for j, col in enumerate(exp["data"]):
            if col is None:
                exp["data"][j] = got["data"][j]
    return canon.diff(got, exp, names=("lasio", "expected"), **diffkw), got, exp


def spec_summary(spec, limit=1500):
    t = lastext.render(spec)
    return t if len(t) <= limit else t[:limit] + "...[%d chars]" % len(t)
