"""setup_cmd: make sure hypothesis is importable (offline wheelhouse) and lasio imports from /repo."""
import sys
from . import env

if __name__ == "__main__":
    try:
        lasio = env.ensure(install=True)
        import hypothesis
        print("setup ok: lasio from %s, hypothesis %s" % (lasio.__file__, hypothesis.__version__))
    except Exception as e:  # noqa
        print("setup failed: %s" % e, file=sys.stderr)
        sys.exit(2)
