"""LASFile objects built through lasio's public API from a JSON-able description, the example corpus,
and Hypothesis strategies for such descriptions (used by C17 and C18).

desc = {
  "transforms": ["Well", ...]        sections whose mnemonic_transforms flag is switched on first (what
                                     lasio.read(mnemonic_case="upper"|"lower") leaves behind)
  "set":     [[section, mnemonic, vspec, unit|None], ...]  value (and unit) of DEFAULT items, applied first
  "version": [item, ...]  "well": [item, ...]  "params": [item, ...]     appended with section.append(HeaderItem)
  "curves":  [[mnemonic, unit, vspec, descr, kind, [cell text, ...]], ...]   kind "f" float64 / "s" str dtype
  "other":   "text"
  "custom":  [[title, [item, ...]], ...]      additional SectionItems sections
  "customtext": [[title, text], ...]          additional free-text sections
  "index_unit": "M" | "FT" | ...              assigned to las.index_unit when present
}
item  = [mnemonic, unit, vspec, descr]
vspec = ["i", 5] python int | ["I", 5] numpy.int64 | ["f", "1.5"] python float | ["F", "1.5"] numpy.float64
      | ["s", "text"]            (float text "nan"/"inf"/"-inf" allowed)
"""
import glob
import math
import os

import numpy as np
from hypothesis import strategies as st

from . import strategies as S
from .api import fenc
from .env import REPO

STD = {"Version": "version", "Well": "well", "Parameter": "params", "Curves": "curves"}
KEY2SEC = {"version": "Version", "well": "Well", "params": "Parameter"}


# ----------------------------------------------------------------------------------------------
# description -> objects


def vdec(spec):
    k, x = spec[0], spec[1]
    if k == "i":
        return int(x)
    if k == "I":
        return np.int64(int(x))
    if k == "f":
        v = float(x)
        return np.nan if math.isnan(v) else v  # the NaN a user writes is the numpy.nan OBJECT (pickle gives another one)
    if k == "F":
        return np.float64(float(x))
    if k == "s":
        return str(x)
    raise ValueError("bad value spec %r" % (spec,))


def vclass(spec):
    k, x = spec[0], spec[1]
    if k in "iI":
        return "int-header-value" if k == "i" else "npint-header-value"
    if k in "fF":
        v = float(x)
        if math.isnan(v):
            return "nan-header-value"
        if math.isinf(v):
            return "inf-header-value"
        return "float-header-value" if k == "f" else "npfloat-header-value"
    return "text-header-value"


def column(kind, cells):
    if kind == "f":
        return np.array([float(c) for c in cells], dtype=np.float64)
    if kind == "i":
        return np.array([int(float(c)) for c in cells], dtype=np.int64)
    if kind == "o":  # floats held in an object-dtype array (what set_data_from_df leaves behind next to a text curve)
        return np.array([float(c) for c in cells], dtype=object)
    return np.array([str(c) for c in cells], dtype=str)  # "s" text, "n" text whose samples all look like numbers


def header_item(it):
    import lasio

    return lasio.HeaderItem(it[0], it[1], vdec(it[2]), it[3])


def build(desc):
    """A fresh LASFile for the description. Deterministic; public API only."""
    import lasio

    las = lasio.LASFile()
    for name in desc.get("transforms", []):
        if name in las.sections and not isinstance(las.sections[name], str):
            las.sections[name].mnemonic_transforms = True
    for sec, mnem, vspec, unit in desc.get("set", []):
        section = las.sections[sec]
        if mnem in section.keys():
            section[mnem] = vdec(vspec)
            if unit is not None:
                section[mnem].unit = unit
    for key, sec in (("version", "Version"), ("well", "Well"), ("params", "Parameter")):
        for it in desc.get(key, []):
            las.sections[sec].append(header_item(it))
    for mnem, unit, vspec, descr, kind, cells in desc.get("curves", []):
        if kind in ("i", "n", "o"):
            # dtype given to an existing curve by assignment (as lasio.read(dtypes=...), update_curve or set_data do)
            las.append_curve(mnem, np.zeros(len(cells)), unit=unit, descr=descr, value=vdec(vspec))
            las.curves[-1].data = column(kind, cells)
        else:
            las.append_curve(mnem, column(kind, cells), unit=unit, descr=descr, value=vdec(vspec))
    if "other" in desc:
        las.other = desc["other"]
    for title, items in desc.get("custom", []):
        sec = lasio.SectionItems()
        if title in desc.get("transforms", []):
            sec.mnemonic_transforms = True
        for it in items:
            sec.append(header_item(it))
        las.sections[title] = sec
    for title, text in desc.get("customtext", []):
        las.sections[title] = text
    if "index_unit" in desc:
        las.index_unit = desc["index_unit"]
    # renames after the build (item.mnemonic = name stores the name verbatim, padding included)
    for sec, pos, name in desc.get("rename", []):
        section = las.sections.get(sec)
        if section is None or isinstance(section, str) or len(section) == 0:
            continue
        keep = {"VERS", "WRAP", "DLM", "STRT", "STOP", "STEP", "NULL"}
        cand = [it for it in list.__iter__(section) if it.original_mnemonic.upper() not in keep]
        if cand:
            if name == "<next>":
                # the name another item of the section already answers to: two items then share one session mnemonic
                if len(cand) < 2:
                    continue
                name = cand[(pos + 1) % len(cand)].mnemonic
            cand[pos % len(cand)].mnemonic = name
    # fields assigned after the build are stored verbatim (no constructor normalisation applies to them)
    for sec, pos, field, text in desc.get("assign", []):
        section = las.sections.get(sec)
        if section is None or isinstance(section, str) or len(section) == 0:
            continue
        items = list(list.__iter__(section))
        setattr(items[pos % len(items)], field, text)
    # deletions after the build: what is left keeps its (now stale) duplicate suffixes, e.g. GR:2, GR:3
    for sec, pos in desc.get("drop", []):
        section = las.sections.get(sec)
        if section is None or isinstance(section, str) or len(section) == 0:
            continue
        if sec == "Curves":
            if len(section) > 1:
                las.delete_curve(ix=1 + pos % (len(section) - 1))
        else:
            keep = {"VERS", "WRAP", "DLM", "STRT", "STOP", "STEP", "NULL"}
            cand = [i for i, it in enumerate(section) if it.original_mnemonic.upper() not in keep]
            if cand:
                del section[cand[pos % len(cand)]]
    return las


def desc_classes(desc):
    """Input-class labels of a description (for the class histogram and the non-trivial rule)."""
    out = set()
    for key in ("version", "well", "params"):
        for it in desc.get(key, []):
            out.add(vclass(it[2]))
    for s in desc.get("set", []):
        out.add(vclass(s[2]))
    for _, items in desc.get("custom", []):
        for it in items:
            out.add(vclass(it[2]))
    curves = desc.get("curves", [])
    if not curves:
        out.add("no-curves")
    else:
        if not curves[0][5]:
            out.add("zero-rows")
        if any(c[4] == "s" for c in curves):
            out.add("text-curve")
        if curves[0][4] == "s":
            out.add("text-index-curve")
        if any(c[4] == "f" and any(math.isnan(float(x)) for x in c[5]) for c in curves):
            out.add("nan-samples")
        if any(c[4] == "f" and any(math.isinf(float(x)) for x in c[5]) for c in curves):
            out.add("inf-samples")
    if desc.get("transforms"):
        out.add("mnemonic-transforms-on")
    if desc.get("custom") or desc.get("customtext"):
        out.add("custom-section")
    return sorted(out)


def las_classes(las):
    """The same labels read off a LASFile (corpus inputs)."""
    out = set()
    for name, sec in las.sections.items():
        if isinstance(sec, str):
            continue
        if name not in STD:
            out.add("custom-section")
        if getattr(sec, "mnemonic_transforms", False):
            out.add("mnemonic-transforms-on")
        for it in sec:
            v = it.value
            if isinstance(v, (bool, np.bool_)):
                continue
            if isinstance(v, (int, np.integer)):
                out.add("int-header-value" if isinstance(v, int) else "npint-header-value")
            elif isinstance(v, (float, np.floating)):
                if math.isnan(v):
                    out.add("nan-header-value")
                elif math.isinf(v):
                    out.add("inf-header-value")
                else:
                    out.add("float-header-value" if type(v) is float else "npfloat-header-value")
            elif isinstance(v, str):
                out.add("text-header-value")
    if len(las.curves) == 0:
        out.add("no-curves")
    else:
        kinds = [np.asarray(c.data).dtype.kind for c in las.curves]
        if len(las.curves[0].data) == 0:
            out.add("zero-rows")
        if any(k in "USO" for k in kinds):
            out.add("text-curve")
        if kinds[0] in "USO":
            out.add("text-index-curve")
        for c, k in zip(las.curves, kinds):
            if k == "f" and len(c.data) and bool(np.isnan(c.data).any()):
                out.add("nan-samples")
    return sorted(out)


def disambiguated(las):
    """Session mnemonics that differ from the original one (':n' suffix or UNKNOWN), per section."""
    out = []
    for name, sec in las.sections.items():
        if isinstance(sec, str):
            continue
        for it in sec:
            if it.mnemonic != it.original_mnemonic:
                out.append((name, it.original_mnemonic, it.mnemonic))
    return out


def summary(desc, limit=900):
    parts = []
    for key in ("transforms", "set", "version", "well", "params", "custom", "customtext", "index_unit", "drop", "rename", "assign"):
        if desc.get(key):
            parts.append("%s=%r" % (key, desc[key]))
    for c in desc.get("curves", []):
        parts.append("curve %r unit=%r value=%r descr=%r %s %r" % tuple(c))
    if desc.get("other"):
        parts.append("other=%r" % desc["other"])
    t = "; ".join(parts)
    return t if len(t) <= limit else t[:limit] + "..."


# ----------------------------------------------------------------------------------------------
# corpus

CORPUS_ROOT = os.path.join(REPO, "tests", "examples")


def corpus_files():
    """Relative paths of every example LAS file, sorted."""
    found = set()
    for pat in ("*.las", "*.LAS"):
        found.update(glob.glob(os.path.join(CORPUS_ROOT, "**", pat), recursive=True))
    return sorted(os.path.relpath(p, CORPUS_ROOT) for p in found)


def read_corpus(rel, **kw):
    import warnings

    import lasio

    with warnings.catch_warnings():
        warnings.simplefilter("ignore")  # numpy's "Empty input file" on header-only examples
        return lasio.read(os.path.join(CORPUS_ROOT, rel), **kw)


# ----------------------------------------------------------------------------------------------
# strategies

COMMON_NAMES = ["GR", "DEPT", "RHOB", "Dt", "nphi", "A", "b", "Res", "TVD", "x1"]
DEFAULT_NAMES = {"Version": ["VERS", "WRAP", "DLM"],
                 "Well": ["STRT", "STOP", "STEP", "NULL", "COMP", "WELL", "UWI", "API", "DATE"]}


def roll(draw, n):
    """Near-uniform choice from range(n). Hypothesis over-represents the first element (its "simplest" choice);
    the rotation moves that weight to the middle of the range, away from the rare branches (tested as == 0 or < p)."""
    return (draw(st.sampled_from(range(n))) + n // 2) % n


def case_variant(draw, m):
    k = roll(draw, 4)
    return [m.upper(), m.lower(), m.swapcase(), m.title()][k]


@st.composite
def mnemonic_list(draw, n, section=None, collide=True):
    """n original mnemonics with collisions forced: repeats, case variants and blanks of a small pool."""
    base = st.one_of(st.sampled_from(COMMON_NAMES), S.mnemonic(allow_inner_blank=False, max_len=8))
    pool = draw(st.lists(base, min_size=1, max_size=3, unique=True))
    out = []
    for _ in range(n):
        k = roll(draw, 12)
        if not collide:
            k = 11
        if 4 <= k <= 7:
            m = draw(st.sampled_from(pool))
        elif k <= 1:
            m = case_variant(draw, draw(st.sampled_from(pool)))
        elif k <= 3:
            m = draw(st.sampled_from(["", "", " ", "  "]))
        elif k == 8 and section in DEFAULT_NAMES:
            m = draw(st.sampled_from(DEFAULT_NAMES[section]))
            if draw(st.booleans()):
                m = case_variant(draw, m)
        elif k == 9 and roll(draw, 3) == 0:
            m = draw(st.sampled_from(["GR:1", "RUN:2", "A:10"]))  # a name of its own that merely looks numbered
        else:
            m = draw(base)
        out.append(m)
    return out


INTS = st.one_of(st.sampled_from([0, 1, -1, 7, 42, -999, 2 ** 31, 2 ** 40 + 1, 10 ** 15, -(2 ** 52), 2 ** 53 + 1, 36028797018963969, -(2 ** 62) - 3]),
                 st.integers(-10 ** 6, 10 ** 6))
FINITE = st.one_of(
    st.sampled_from([0.0, -0.0, 1.5, -999.25, 0.1, 1e-300, 1.7976931348623157e308, 2.0, 100.0, -9999.25, 1e22,
                     123456.789, 5e-324]),
    st.floats(allow_nan=False, allow_infinity=False, width=64),
    st.integers(-10 ** 5, 10 ** 5).map(lambda i: i / 8.0))


@st.composite
def value_spec(draw, inf=False, text=None):
    k = roll(draw, 16)
    np_ = draw(st.booleans())
    if k <= 3:
        return ["I" if np_ else "i", draw(INTS)]
    if k <= 6:
        return ["F" if np_ else "f", fenc(draw(FINITE))]
    if k >= 14:
        return ["F" if np_ else "f", "nan"]
    if k == 13 and inf:
        return ["F" if np_ else "f", draw(st.sampled_from(["inf", "-inf"]))]
    return ["s", draw(text if text is not None else S.field_text(colon_ok=True))]


@st.composite
def header_items(draw, section, max_items=4, inf=False, collide=True):
    n = roll(draw, max_items + 1)
    names = draw(mnemonic_list(n, section=section, collide=collide))
    return [[m, draw(S.unit()), draw(value_spec(inf=inf)), draw(S.field_text())] for m in names]


CELL_TEXT = st.one_of(
    st.sampled_from(["", "a", "b c", "SAND", "LIMESTONE", "1.5", "nan", "x,y", "q\"uote", "it's", " lead", "trail ",
                     "semi;colon", "é深", "-", "12-MAY", "=1+2", "tab\there", "5'6\"", "LOST INTERVAL   ", "'", "\""]),
    st.text(S.TEXT_CHARS + " ", min_size=0, max_size=10))


@st.composite
def curve_set(draw, max_curves=5, max_rows=6, inf=False, p_text=4, p_empty=1, collide=True, extra_kinds=()):
    """List of curve descriptions of one common length. p_text / p_empty are chances out of 10 / 20."""
    if roll(draw, 20) < p_empty:
        return []
    nc = 1 + roll(draw, max_curves)
    nr = draw(st.sampled_from([3, 1, 2, 0, 4, max_rows, 1, 3]))
    names = draw(mnemonic_list(nc, section="Curves", collide=collide))
    want_text = roll(draw, 10) < p_text
    text_cols = set()
    if want_text:
        # the index curve is text only rarely (such a file cannot be written)
        text_cols.add(draw(st.integers(0 if roll(draw, 5) == 0 else min(1, nc - 1), nc - 1)))
        if nc > 2 and draw(st.booleans()):
            text_cols.add(draw(st.integers(1, nc - 1)))
    nan_mode = draw(st.sampled_from(["some", "none", "some", "all-in-one"]))
    out = []
    for j, m in enumerate(names):
        if j in text_cols:
            cells = [draw(CELL_TEXT) for _ in range(nr)]
            kind = "s"
        else:
            kind = "f"
            cells = []
            for i in range(nr):
                if j == 0:
                    cells.append(fenc(100.0 + i * 0.5 if roll(draw, 6) else draw(FINITE)))
                elif nan_mode == "some" and roll(draw, 4) == 0:
                    cells.append("nan")
                elif nan_mode == "all-in-one" and j == nc - 1:
                    cells.append("nan")
                elif inf and roll(draw, 31) == 0:
                    cells.append(draw(st.sampled_from(["inf", "-inf"])))
                else:
                    cells.append(fenc(draw(FINITE)))
        if extra_kinds and j > 0 and kind == "f" and roll(draw, 4) == 0:
            k2 = draw(st.sampled_from(list(extra_kinds)))
            if k2 == "i":
                kind, cells = "i", [str(draw(st.integers(-1000, 1000))) for _ in range(nr)]
            elif k2 == "n":
                kind, cells = "n", [draw(st.sampled_from(["1", "2.5", "-3", "007", "1e3"])) for _ in range(nr)]
            elif k2 == "o":
                kind = "o"  # same cells (floats, possibly NaN) in an object array
        vs = draw(st.one_of(st.just(["s", ""]), value_spec(inf=inf)))
        out.append([m, draw(S.unit()), vs, draw(S.field_text()), kind, cells])
    return out


OTHER_TEXT = st.one_of(st.just(""), st.sampled_from(["note", "line 1\nline 2", "a: b\n\n  indented", "~ not a title"]),
                       st.text(S.TEXT_CHARS + " \n", max_size=30))
CUSTOM_TITLES = ["Tops", "Drilling_Definition", "SPECIAL INFORMATION", "extra"]


@st.composite
def las_desc(draw, inf=False, max_items=4, max_curves=5, max_rows=6, p_text=4, p_empty=1, custom=True,
             set_defaults=True, index_unit=True, collide=True, drops=False, extra_kinds=()):
    d = {}
    if drops and roll(draw, 4) == 0:
        d["rename"] = [[draw(st.sampled_from(["Well", "Parameter", "Curves"])), draw(st.integers(0, 5)),
                        draw(st.sampled_from([" GR ", "GR  ", "  ", "\t", " x", "NEW", "gr", "<next>", "<next>"]))]]
    if drops and roll(draw, 4) == 0:
        d["assign"] = [[draw(st.sampled_from(["Well", "Parameter", "Curves"])), draw(st.integers(0, 5)),
                        draw(st.sampled_from(["unit", "unit", "descr"])),
                        draw(st.sampled_from(["[gAPI]", "(v/v)", " m ", "(x]", "  padded  ", ""]))]]
    if drops and roll(draw, 3) == 0:
        d["drop"] = [[draw(st.sampled_from(["Well", "Parameter", "Curves", "Version"])), draw(st.integers(0, 5))]
                     for _ in range(draw(st.integers(1, 2)))]
    tr = [s for s in ("Version", "Well", "Parameter", "Curves") if roll(draw, 4) == 0]
    if set_defaults:
        sets = []
        if roll(draw, 10) < 6:
            # STRT/STOP/STEP away from their default NaN
            for m in ("STRT", "STOP", "STEP"):
                sets.append(["Well", m, draw(value_spec(inf=False, text=st.sampled_from(["", "100.0", "n/a"]))),
                             draw(st.sampled_from([None, None, "m", "FT", ""]))])
        if roll(draw, 4) == 0:
            sets.append(["Well", "NULL", draw(st.sampled_from([["i", -999], ["I", -9999], ["f", "-999.25"],
                                                                ["F", "-999.25"], ["s", "-999.25"]])), None])
        if roll(draw, 6) == 0:
            sets.append(["Well", draw(st.sampled_from(["COMP", "WELL", "UWI", "API", "DATE"])),
                         draw(value_spec(inf=inf)), None])
        if roll(draw, 8) == 0:
            sets.append(["Version", "VERS", draw(st.sampled_from([["f", "1.2"], ["F", "2.0"], ["i", 2], ["I", 2]])),
                         None])
        if sets:
            d["set"] = sets
    for key, sec in (("version", "Version"), ("well", "Well"), ("params", "Parameter")):
        items = draw(header_items(sec, max_items=2 if key == "version" else max_items, inf=inf, collide=collide))
        if items:
            d[key] = items
    d["curves"] = draw(curve_set(max_curves=max_curves, max_rows=max_rows, inf=inf, p_text=p_text, p_empty=p_empty,
                                 collide=collide, extra_kinds=extra_kinds))
    o = draw(OTHER_TEXT)
    if o:
        d["other"] = o
    if custom and roll(draw, 5) == 0:
        title = draw(st.sampled_from(CUSTOM_TITLES))
        d["custom"] = [[title, draw(header_items(None, max_items=3, inf=inf, collide=collide))]]
        if draw(st.booleans()):
            tr.append(title)
        if draw(st.booleans()):
            d["customtext"] = [["Notes", draw(OTHER_TEXT)]]
    if tr:
        d["transforms"] = tr
    if index_unit and roll(draw, 4) == 0:
        d["index_unit"] = draw(st.sampled_from(["M", "FT", ".1IN", "m"]))
    return d
