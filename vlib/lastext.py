"""FileSpec (a JSON-able dict) -> LAS text.

spec    = {"nl": "\n"|"\r\n", "final_nl": bool, "sections": [section, ...]}
section = {"kind": "V"|"W"|"C"|"P"|"X"|"O"|"A", "title": "~...", "lines": [line, ...],
           "tlead": "", "ttrail": "", "ncols": int (A only)}
line    = {"t": "item", "m","u","v","d", "p": [p0..p5]}     MNEM .UNIT VALUE : DESCR (semantic v/d)
        | {"t": "np", "m","v", "p": [p0..p3]}                NAME : VALUE   (no period)
        | {"t": "blank", "text": "  "} | {"t": "comment", "text": "# ..."}
        | {"t": "text", "text": "..."}                       free text (~O)
        | {"t": "junk", "text": "..."}                       (C19)
        | {"t": "row", "toks": [...], "lead": "", "seps": [...], "trail": ""}   one physical data line
"""

W12_VALUE_FIRST = ("STRT", "STOP", "STEP", "NULL", "strt", "stop", "step", "null")
KEYS = {"V": "Version", "W": "Well", "C": "Curves", "P": "Parameter", "O": "Other"}


def spec_version(spec):
    """VERS value text of the first ~V section (default 2.0 as lasio documents)."""
    for sec in spec["sections"]:
        if sec["kind"] == "V":
            for ln in sec["lines"]:
                if ln["t"] == "item" and ln["m"].upper() == "VERS":
                    return ln["v"]
    return "2.0"


def is_12(vers_text):
    try:
        return float(vers_text) == 1.2
    except ValueError:
        return False


def swapped(sec_kind, mnemonic, v12):
    """On disk, LAS 1.2 ~W lines other than STRT/STOP/STEP/NULL carry DESCR before the colon."""
    return v12 and sec_kind == "W" and mnemonic.upper() not in W12_VALUE_FIRST  # in any letter case (Strt, Null)


def render_item(ln, sec_kind, v12):
    p = ln.get("p") or ["", "", " ", " ", " ", ""]
    left, right = ln["v"], ln["d"]
    if swapped(sec_kind, ln["m"], v12):
        left, right = right, left
    return "%s%s%s.%s%s%s%s:%s%s%s" % (p[0], ln["m"], p[1], ln["u"], p[2], left, p[3], p[4], right, p[5])


def render_line(ln, sec_kind, v12):
    t = ln["t"]
    if t == "item":
        return render_item(ln, sec_kind, v12)
    if t == "np":
        p = ln.get("p") or ["", " ", " ", ""]
        return "%s%s%s:%s%s%s" % (p[0], ln["m"], p[1], p[2], ln["v"], p[3])
    if t == "row":
        toks, seps = ln["toks"], ln.get("seps") or []
        s = ln.get("lead", "")
        for i, tok in enumerate(toks):
            if i:
                s += seps[i - 1] if i - 1 < len(seps) else " "
            s += tok
        return s + ln.get("trail", "")
    return ln["text"]


def lines_of(spec):
    """[(section_index, line_index or -1 for the title, text)]"""
    v12 = is_12(spec_version(spec))
    out = []
    for si, sec in enumerate(spec["sections"]):
        out.append((si, -1, sec.get("tlead", "") + sec["title"] + sec.get("ttrail", "")))
        for li, ln in enumerate(sec["lines"]):
            out.append((si, li, render_line(ln, sec["kind"], v12)))
    return out


def render(spec):
    nl = spec.get("nl", "\n")
    text = nl.join(t for _, _, t in lines_of(spec))
    if spec.get("final_nl", True):
        text += nl
    return text


# ---------------------------------------------------------------------------------------
# helpers to build specs by hand


def item(m, u="", v="", d="", p=None):
    return {"t": "item", "m": m, "u": u, "v": v, "d": d, "p": p or ["", "", " ", " ", " ", ""]}


def row(toks, sep=" ", lead="", trail=""):
    return {"t": "row", "toks": list(toks), "lead": lead, "seps": [sep] * max(0, len(toks) - 1), "trail": trail}


def section(kind, title, lines, **kw):
    d = {"kind": kind, "title": title, "lines": list(lines)}
    d.update(kw)
    return d


def simple_spec(curves, rows, vers="2.0", wrap="NO", null="-999.25", well=(), params=None, other=None,
                dlm=None, nl="\n", final_nl=True):
    """curves: list of (m,u,v,d); rows: list of token lists (one physical line each)."""
    v = [item("VERS", "", vers, "version"), item("WRAP", "", wrap, "wrap")]
    if dlm:
        v.append(item("DLM", "", dlm, "delimiter"))
    w = [item("STRT", "M", "0", "start"), item("STOP", "M", "1", "stop"), item("STEP", "M", "1", "step"),
         item("NULL", "", null, "null")] + [item(*x) for x in well]
    secs = [section("V", "~Version", v), section("W", "~Well", w),
            section("C", "~Curves", [item(*c) for c in curves])]
    if params is not None:
        secs.append(section("P", "~Parameter", [item(*x) for x in params]))
    if other is not None:
        secs.append(section("O", "~Other", [{"t": "text", "text": t} for t in other]))
    ncols = len(rows[0]) if rows else 0
    secs.append(section("A", "~ASCII", [row(r) for r in rows], ncols=ncols))
    return {"nl": nl, "final_nl": final_nl, "sections": secs}
