"""open()/io.open() tracking and k-th-operation fault injection (C20).

    tr = Tracker(k=None | int, kopen=None | int, proxy=True)
    with tr:
        <one lasio call>
    tr.report()  -> [(path, mode, closed?, open-site), ...]   one entry per file object lasio opened

While the context is active `builtins.open` and `io.open` are replaced by one wrapper.  lasio/las.py calls
`open(...)` (module globals -> builtins) and lasio/reader.py calls `open(...)` and `io.open(...)` (attribute of the
io module), so both names are replaced; `check_reachable()` verifies that neither module shadows them.

Only opens whose *immediate caller* is a function of the tree under test ("/lasio/" in its file name) are tracked;
an open issued by numpy, chardet, linecache ... goes to the real open untouched and is listed in `foreign`.

Every tracked file object is kept in `records` with a strong reference to the real file object, so that neither
reference counting nor the cyclic collector can close a leaked file behind our back before `.closed` is inspected.

With proxy=True the caller receives a FileProxy that delegates everything to the real file object and counts the
low-level operations OPS over ALL files of the call; the k-th one raises OSError("injected fault #k") instead of
being performed (k=None: count only).  kopen=j makes the j-th tracked open() raise OSError before any file is
created.  close() is never made to fail.  `wrap_external(fobj)` puts a caller-supplied object behind a proxy that
shares the same operation counter (write(fileobj) / to_csv(fileobj)).
"""
import builtins
import io
import sys

from .env import HarnessError

OPS = ("read", "readline", "readlines", "next", "seek", "tell", "write", "writelines", "flush")
MARK = "injected fault #"
_REAL_OPEN = io.open
_active = []


def is_injected(exc):
    return isinstance(exc, OSError) and str(exc).startswith(MARK)


class Record(object):
    __slots__ = ("index", "path", "mode", "site", "real", "proxy", "kind", "nops")

    def __init__(self, index, path, mode, site, real, kind):
        self.index = index
        self.path = path
        self.mode = mode
        self.site = site  # "las.py:write" - function of the tree under test that called open()
        self.real = real  # the real file object (strong reference)
        self.proxy = None
        self.kind = kind  # "opened" (by lasio) | "caller" (supplied by the caller)
        self.nops = 0

    @property
    def closed(self):
        return self.real.closed


class FileProxy(object):
    """Delegates to a real file object; every low-level operation is announced to the tracker first."""

    def __init__(self, real, tracker, rec):
        object.__setattr__(self, "_f", real)
        object.__setattr__(self, "_t", tracker)
        object.__setattr__(self, "_rec", rec)

    # -- counted operations ------------------------------------------------------------
    def read(self, *a, **kw):
        self._t.tick("read", self._rec)
        return self._f.read(*a, **kw)

    def readline(self, *a, **kw):
        self._t.tick("readline", self._rec)
        return self._f.readline(*a, **kw)

    def readlines(self, *a, **kw):
        self._t.tick("readlines", self._rec)
        return self._f.readlines(*a, **kw)

    def __next__(self):
        self._t.tick("next", self._rec)
        return next(self._f)

    def seek(self, *a, **kw):
        self._t.tick("seek", self._rec)
        return self._f.seek(*a, **kw)

    def tell(self):
        self._t.tick("tell", self._rec)
        return self._f.tell()

    def write(self, *a, **kw):
        self._t.tick("write", self._rec)
        return self._f.write(*a, **kw)

    def writelines(self, *a, **kw):
        self._t.tick("writelines", self._rec)
        return self._f.writelines(*a, **kw)

    def flush(self):
        self._t.tick("flush", self._rec)
        return self._f.flush()

    # -- never counted, never failing -----------------------------------------------------
    def close(self):
        return self._f.close()

    @property
    def closed(self):
        return self._f.closed

    def __iter__(self):
        if self._f.closed:
            raise ValueError("I/O operation on closed file.")
        return self

    def __enter__(self):
        if self._f.closed:
            raise ValueError("I/O operation on closed file.")
        return self

    def __exit__(self, *exc):
        self._f.close()
        return None

    def __getattr__(self, name):
        # name, mode, encoding, errors, newlines, readable(), writable(), seekable(), fileno(), getvalue() ...
        return getattr(self._f, name)

    def __setattr__(self, name, value):
        setattr(self._f, name, value)

    def __repr__(self):
        return "<FileProxy of %r>" % (self._f,)


def is_file_like(x):
    return isinstance(x, (io.IOBase, FileProxy))


_THIN = ("/pathlib.py", "/pathlib/_local.py", "/pathlib/__init__.py", "/codecs.py")


def _caller_site(depth=2):
    """(owned-by-tree-under-test?, 'file.py:function') of the function that called open().  Thin standard-library
    wrappers (Path.open, codecs.open) are looked through, so that a lasio that opens files through them stays
    tracked."""
    f = sys._getframe(depth)
    while f.f_back is not None and f.f_code.co_filename.replace("\\", "/").endswith(_THIN):
        f = f.f_back
    fn = f.f_code.co_filename.replace("\\", "/")
    site = "%s:%s" % (fn.rsplit("/", 1)[-1], f.f_code.co_name)
    return ("/lasio/" in fn), site


class Tracker(object):
    def __init__(self, k=None, kopen=None, proxy=True):
        self.k = k
        self.kopen = kopen
        self.use_proxy = bool(proxy) or k is not None
        self.records = []  # Record, in order of creation (tracked opens and wrap_external objects)
        self.failed_opens = []  # (path, mode, site, exception class name) - real open() raised
        self.foreign = []  # (path, mode, site) - opened by code outside the tree under test, not tracked
        self.ops = 0
        self.opens = 0  # tracked open() calls (attempts)
        self.fired = None  # None | dict(op=, site=, path=, mode=, what="op"|"open")
        self.oplog = []  # op names in order (bounded)
        self._saved = None

    # -- patching -----------------------------------------------------------------------
    def __enter__(self):
        if _active:
            raise HarnessError("faultio.Tracker is not re-entrant")
        if builtins.open is not _REAL_OPEN or io.open is not _REAL_OPEN:
            raise HarnessError("builtins.open / io.open already replaced by somebody else")
        self._saved = (builtins.open, io.open)
        _active.append(self)
        builtins.open = self._open
        io.open = self._open
        return self

    def __exit__(self, *exc):
        builtins.open, io.open = self._saved
        _active.remove(self)
        return False

    def _open(self, file, mode="r", *args, **kwargs):
        owned, site = _caller_site(2)
        if not owned:
            self.foreign.append((_pathtext(file), mode, site))
            return _REAL_OPEN(file, mode, *args, **kwargs)
        self.opens += 1
        if self.kopen is not None and self.opens == self.kopen and self.fired is None:
            self.fired = dict(what="open", op="open", site=site, path=_pathtext(file), mode=mode, n=self.opens)
            raise OSError("%s%d (open #%d of %r)" % (MARK, self.opens, self.opens, _pathtext(file)))
        try:
            real = _REAL_OPEN(file, mode, *args, **kwargs)
        except BaseException as e:  # noqa
            self.failed_opens.append((_pathtext(file), mode, site, type(e).__name__))
            raise
        rec = Record(len(self.records), _pathtext(file), mode, site, real, "opened")
        self.records.append(rec)
        if not self.use_proxy:
            return real
        rec.proxy = FileProxy(real, self, rec)
        return rec.proxy

    def wrap_external(self, fobj, label="caller-object"):
        """A caller-supplied file object: recorded (kind 'caller'); behind a proxy when proxies are in use."""
        rec = Record(len(self.records), label, getattr(fobj, "mode", "?"), "caller", fobj, "caller")
        self.records.append(rec)
        if not self.use_proxy:
            return fobj
        rec.proxy = FileProxy(fobj, self, rec)
        return rec.proxy

    # -- counting / injection -----------------------------------------------------------------
    def tick(self, op, rec):
        self.ops += 1
        rec.nops += 1
        if len(self.oplog) < 2000:
            self.oplog.append(op)
        if self.k is not None and self.ops == self.k and self.fired is None:
            self.fired = dict(what="op", op=op, site=rec.site, path=rec.path, mode=rec.mode, n=self.ops)
            raise OSError("%s%d (%s on %s opened in %s)" % (MARK, self.ops, op, rec.mode, rec.site))

    # -- reporting ---------------------------------------------------------------------------
    def report(self):
        return [(r.path, r.mode, bool(r.closed), r.site) for r in self.records if r.kind == "opened"]

    def opened(self):
        return [r for r in self.records if r.kind == "opened"]

    def callers(self):
        return [r for r in self.records if r.kind == "caller"]

    def leaked(self):
        return [r for r in self.records if r.kind == "opened" and not r.closed]

    def cleanup(self):
        """Close what lasio left open (after the verdict has been taken)."""
        for r in self.records:
            if r.kind != "opened":
                continue
            try:
                r.real.close()
            except Exception:  # noqa
                pass


def _pathtext(p):
    try:
        return str(p)
    except Exception:  # noqa
        return repr(p)


def check_reachable():
    """The names lasio uses to open files must resolve to what Tracker replaces."""
    import lasio.las as L
    import lasio.reader as R

    for mod in (L, R):
        if "open" in vars(mod):
            raise HarnessError("%s defines its own global 'open': builtins patching would not reach it" % mod.__name__)
    if getattr(R, "io", None) is not io:
        raise HarnessError("lasio.reader.io is not the io module")
    if getattr(L, "io", io) is not io:
        raise HarnessError("lasio.las.io is not the io module")
