"""Small vocabulary shared by the runner and the check modules."""
import hashlib
import json
import math
import traceback
from collections import Counter

from .env import REPO, HarnessError  # noqa: F401


class Outcome(object):
    """Result of running the oracle on ONE case."""

    __slots__ = ("violations", "nontrivial", "classes", "rejected", "sample", "excluded")

    def __init__(self):
        self.violations = []  # list of (bucket, message)
        self.nontrivial = False
        self.classes = []
        self.rejected = False  # the code legitimately refused the input
        self.excluded = False  # case lies in the region of an open known finding
        self.sample = None  # compact human-readable rendering (optional)

    def fail(self, bucket, message):
        self.violations.append((str(bucket), str(message)[:4000]))
        return self

    def cls(self, *names):
        self.classes.extend(n for n in names if n)
        return self


def case_hash(case):
    return hashlib.blake2b(
        json.dumps(case, sort_keys=True, default=str).encode("utf-8", "surrogatepass"),
        digest_size=8,
    ).digest()


def case_size(case):
    return len(json.dumps(case, default=str))


class Stats(object):
    MAX_SAMPLES = 4

    def __init__(self):
        self.evaluations = 0
        self.nontrivial = set()  # hashes (hash mode)
        self.nontrivial_count = 0  # count mode (cases distinct by construction)
        self.classes = Counter()
        self.samples = []
        self.rejected = 0
        self.excluded = 0
        self.skipped_budget = 0
        self.failures = {}  # bucket -> dict(case, message, size, count)
        self.parts = {}  # part name -> dict(evaluations, wall_s, exhaustive)
        self.notes = []

    def record(self, case, out, distinct_by_construction=False, part=None):
        self.evaluations += 1
        for c in out.classes:
            self.classes[c] += 1
        if out.rejected:
            self.rejected += 1
        if out.excluded:
            self.excluded += 1
        if out.nontrivial:
            if distinct_by_construction:
                self.nontrivial_count += 1
                new = True
            else:
                h = case_hash(case)
                new = h not in self.nontrivial
                self.nontrivial.add(h)
            if new and len(self.samples) < self.MAX_SAMPLES:
                self.samples.append(out.sample if out.sample is not None else case)
        elif not self.samples:
            self.samples.append(out.sample if out.sample is not None else case)
        for bucket, message in out.violations:
            size = case_size(case)
            f = self.failures.get(bucket)
            if f is None:
                self.failures[bucket] = dict(case=case, message=message, size=size, count=1, part=part)
            else:
                f["count"] += 1
                if size < f["size"]:
                    f.update(case=case, message=message, size=size)

    def merge(self, other):
        self.evaluations += other.evaluations
        self.nontrivial |= other.nontrivial
        self.nontrivial_count += other.nontrivial_count
        self.classes.update(other.classes)
        self.rejected += other.rejected
        self.excluded += other.excluded
        self.skipped_budget += other.skipped_budget
        for s in other.samples:
            if len(self.samples) < self.MAX_SAMPLES and s not in self.samples:
                self.samples.append(s)
        for b, f in other.failures.items():
            mine = self.failures.get(b)
            if mine is None:
                self.failures[b] = dict(f)
            else:
                cnt = mine["count"] + f["count"]
                if f["size"] < mine["size"]:
                    mine.update(f)
                mine["count"] = cnt
        for name, p in other.parts.items():
            mine = self.parts.setdefault(name, dict(evaluations=0, wall_s=0.0, exhaustive=True, shards=0))
            mine["evaluations"] += p["evaluations"]
            mine["wall_s"] = max(mine["wall_s"], p["wall_s"])
            mine["exhaustive"] = mine["exhaustive"] and p.get("exhaustive", False)
            mine["shards"] += p.get("shards", 1)
        self.notes.extend(n for n in other.notes if n not in self.notes)
        return self

    @property
    def distinct_nontrivial(self):
        return len(self.nontrivial) + self.nontrivial_count


# ---------------------------------------------------------------------------------
# Parts: units of work a check offers to the runner.


class Part(object):
    kind = "custom"

    def __init__(self, name, quick, thorough=None, max_shards=16, budget_s=None):
        self.name = name
        self.n = {"quick": quick, "thorough": thorough if thorough is not None else quick}
        self.max_shards = max_shards
        self.budget_s = budget_s or {}

    def count(self, tier):
        return self.n[tier]


class Hyp(Part):
    """Hypothesis-driven part: `strategy()` yields JSON-able cases fed to the oracle."""

    kind = "hyp"

    def __init__(self, name, strategy, quick, thorough=None, oracle=None, **kw):
        Part.__init__(self, name, quick, thorough, **kw)
        self.strategy = strategy
        self.oracle = oracle


class Enum(Part):
    """Exhaustive part: `cases(tier)` yields distinct JSON-able cases in a fixed order."""

    kind = "enum"

    def __init__(self, name, cases, oracle=None, max_shards=16, budget_s=None):
        Part.__init__(self, name, 0, 0, max_shards=max_shards, budget_s=budget_s)
        self.cases = cases
        self.oracle = oracle


class Machine(Part):
    """Stateful part: `factory(record)` returns a RuleBasedStateMachine subclass; the machine
    calls `record(case, outcome)` itself (usually once, in teardown)."""

    kind = "machine"

    def __init__(self, name, factory, quick, thorough=None, steps=30, **kw):
        Part.__init__(self, name, quick, thorough, **kw)
        self.factory = factory
        self.steps = steps if isinstance(steps, dict) else {"quick": steps, "thorough": steps}


class Custom(Part):
    """Free-form part: fn(ctx) where ctx has .tier .seed .shard .nshards .stats .record()."""

    kind = "custom"

    def __init__(self, name, fn, max_shards=1, budget_s=None):
        Part.__init__(self, name, 0, 0, max_shards=max_shards, budget_s=budget_s)
        self.fn = fn


# ---------------------------------------------------------------------------------
# Calling the code under test.


class Raised(object):
    """A lasio call raised: carries the exception and where inside lasio it came from."""

    def __init__(self, exc):
        self.exc = exc
        self.type = type(exc).__name__
        self.site = innermost_site(exc)
        self.text = "%s: %s" % (self.type, str(exc)[:300])

    def __repr__(self):
        return "Raised(%s @ %s)" % (self.text, self.site)

    @property
    def bucket(self):
        return "%s@%s" % (self.type, self.site)


def innermost_site(exc):
    """file:function of the innermost frame that lies inside the tree under test."""
    site = "?"
    for fs in traceback.extract_tb(exc.__traceback__):
        fn = fs.filename
        if "/lasio/" in fn:
            site = "%s:%s" % (fn.rsplit("/", 1)[-1], fs.name)
    return site


def attempt(fn, *args, **kwargs):
    """Run a call into the code under test; return its value or a Raised."""
    try:
        return fn(*args, **kwargs)
    except (KeyboardInterrupt, SystemExit, MemoryError):
        raise
    except BaseException as e:  # noqa
        return Raised(e)


def is_raised(x):
    return isinstance(x, Raised)


# ---------------------------------------------------------------------------------
# Floats inside JSON cases: always as text, so NaN/inf stay valid JSON.


def fenc(x):
    x = float(x)
    if math.isnan(x):
        return "nan"
    return repr(x)


def fdec(s):
    return float(s)
