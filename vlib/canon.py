"""Canonical, JSON-friendly content of a LASFile and NaN-safe comparison.

A canonical value is a tuple:
   ("i", int) ("f", float) ("s", str) ("none",) ("o", repr)       - observed values
   ("e", float, text)                                             - expected only: either the number or the text
"""
import math

import numpy as np


def cval(v):
    if isinstance(v, (bool, np.bool_)):
        return ("o", repr(v))
    if isinstance(v, (int, np.integer)):
        return ("i", int(v))
    if isinstance(v, (float, np.floating)):
        return ("f", float(v))
    if isinstance(v, str):
        return ("s", v)
    if v is None:
        return ("none",)
    return ("o", repr(v))


def cval_from_text(text, convert=True):
    """Expected canonical value of a header value text (see refparse.classify)."""
    from .refparse import classify

    if not convert:
        return ("s", text)
    k, x = classify(text)
    if k == "int":
        return ("i", x)
    if k == "float":
        return ("f", x)
    if k == "either":
        return ("e", x, text)
    return ("s", text)


def num_eq(a, b):
    if isinstance(a, float) and isinstance(b, float) and math.isnan(a) and math.isnan(b):
        return True
    return a == b


def val_eq(a, b, numeric_loose=True):
    """Equality of canonical values. Numbers compare numerically (int 5 == float 5.0)."""
    if a[0] == "e" or b[0] == "e":
        e, o = (a, b) if a[0] == "e" else (b, a)
        if o[0] in ("i", "f"):
            return num_eq(float(o[1]), e[1])
        return o == ("s", e[2])
    if a[0] in ("i", "f") and b[0] in ("i", "f"):
        if not numeric_loose and a[0] != b[0]:
            return False
        if a[0] == "i" and b[0] == "i":
            return a[1] == b[1]
        return num_eq(float(a[1]), float(b[1]))
    return a == b


def citem(item):
    return dict(orig=item.original_mnemonic, sess=item.mnemonic, unit=item.unit,
                value=cval(item.value), descr=item.descr)


def column(arr):
    arr = np.asarray(arr)
    if arr.dtype.kind == "f":
        return [float(x) for x in arr]
    if arr.dtype.kind in "iu":
        return [int(x) for x in arr]
    out = []
    for x in arr:
        if isinstance(x, (float, np.floating)):
            out.append(float(x))
        else:
            out.append(str(x))
    return out


def from_las(las, data=True):
    secs = {}
    for name, sec in las.sections.items():
        if isinstance(sec, str):
            secs[name] = {"text": sec.split("\n") if sec != "" else []}
        else:
            secs[name] = {"items": [citem(i) for i in sec]}
    out = {"sections": secs}
    if data:
        out["data"] = [column(c.data) for c in las.curves]
        out["dtypes"] = [np.asarray(c.data).dtype.kind for c in las.curves]
    return out


def cell_eq(a, b):
    if isinstance(a, float) and isinstance(b, float):
        return (math.isnan(a) and math.isnan(b)) or a == b
    if isinstance(a, (int, float)) and isinstance(b, (int, float)):
        return float(a) == float(b)
    return a == b


def diff(a, b, skip_items=(), fields=("orig", "sess", "unit", "value", "descr"), data=True,
         cell=cell_eq, names=("a", "b"), value_eq=val_eq, limit=12):
    """List of (location, text) differences between two canonical contents.
    skip_items: set of (section, ORIG-UPPER) not compared (e.g. ('Version','VERS'))."""
    out = []
    sa, sb = a["sections"], b["sections"]
    if list(sa.keys()) != list(sb.keys()):
        if set(sa.keys()) != set(sb.keys()):
            out.append(("sections", "section names differ: %r vs %r" % (list(sa), list(sb))))
    for name in sa:
        if name not in sb:
            continue
        x, y = sa[name], sb[name]
        if ("text" in x) != ("text" in y):
            out.append((name, "section %s: kind differs (%s vs %s)" % (name, list(x), list(y))))
            continue
        if "text" in x:
            if x["text"] != y["text"]:
                out.append((name + ".text", "section %s text differs: %r vs %r" % (name, x["text"], y["text"])))
            continue
        xi = [i for i in x["items"] if (name, i["orig"].upper()) not in skip_items]
        yi = [i for i in y["items"] if (name, i["orig"].upper()) not in skip_items]
        if len(xi) != len(yi):
            out.append((name + ".len", "section %s: %d items vs %d items: %r vs %r" % (
                name, len(xi), len(yi), [i["orig"] for i in xi], [i["orig"] for i in yi])))
            continue
        for k, (i, j) in enumerate(zip(xi, yi)):
            for f in fields:
                if f == "value":
                    ok = value_eq(i[f], j[f])
                else:
                    ok = i[f] == j[f]
                if not ok:
                    out.append(("%s.%s" % (name, f), "%s[%d] (%r) %s: %s=%r %s=%r" % (
                        name, k, i["orig"], f, names[0], i[f], names[1], j[f])))
    if data and "data" in a and "data" in b:
        da, db = a["data"], b["data"]
        if len(da) != len(db):
            out.append(("data.ncols", "number of curves with data: %d vs %d" % (len(da), len(db))))
        else:
            for c, (x, y) in enumerate(zip(da, db)):
                if len(x) != len(y):
                    out.append(("data.nrows", "curve %d length %d vs %d" % (c, len(x), len(y))))
                    break
                bad = [r for r in range(len(x)) if not cell(x[r], y[r])]
                if bad:
                    r = bad[0]
                    out.append(("data.cell", "curve %d row %d: %s=%r %s=%r (%d cells differ in this curve)" % (
                        c, r, names[0], x[r], names[1], y[r], len(bad))))
    return out[:limit] if limit else out


def show(diffs):
    return "\n".join(t for _, t in diffs)


def first_loc(diffs):
    return diffs[0][0] if diffs else ""
