"""Reference models of lasio's containers, written from the documentation.

NameModel: the documented session-mnemonic rule (docs: "Handling duplicate mnemonics"):
  * blank mnemonic -> UNKNOWN
  * after inserting an item whose useful name is U, every item whose useful name equals U
    (ignoring case when the section was case-normalised) is numbered :1..:n in section order
    when n > 1; other items are left untouched.
"""


def useful(orig):
    return "UNKNOWN" if orig.strip() == "" else orig


def same(a, b, ci):
    return (a.upper() == b.upper()) if ci else (a == b)


class NameModel(object):
    """Ordered list of [orig, session] pairs under the documented numbering rule."""

    def __init__(self, ci=False):
        self.ci = ci
        self.items = []  # [orig, sess]

    def copy(self):
        m = NameModel(self.ci)
        m.items = [list(x) for x in self.items]
        return m

    def renumber(self, u):
        locs = [i for i, it in enumerate(self.items) if same(useful(it[0]), u, self.ci)]
        if len(locs) > 1:
            for n, i in enumerate(locs):
                self.items[i][1] = useful(self.items[i][0]) + ":%d" % (n + 1)

    def renumber_all(self):
        for u in sorted({useful(it[0]) for it in self.items}):
            self.renumber(u)

    def insert(self, pos, orig):
        self.items.insert(pos, [orig, useful(orig)])
        self.renumber(useful(orig))

    def append(self, orig):
        self.insert(len(self.items), orig)

    def delete(self, pos):
        del self.items[pos]

    def sessions(self):
        return [s for _, s in self.items]

    def originals(self):
        return [o for o, _ in self.items]


def session_names(originals, ci=False):
    m = NameModel(ci)
    for o in originals:
        m.append(o)
    return m.sessions()
