"""Hypothesis strategies for LAS fields, header lines, data sections and whole FileSpecs.

Soundness rules (DESIGN.md section 4) are enforced by construction here:
  * mnemonic: non-empty after strip, no '.' or ':', does not start with '#' or '~', never a steering
    or layout-table name (VERS WRAP DLM NULL STRT STOP STEP API UWI in any case) unless placed deliberately
  * unit: no whitespace, no '..', does not start or end with '.', not purely numeric, not bracketed;
    interior ':' only between letters
  * left field (value; description in LAS 1.2 ~W) may hold clock times, right field no ':' outside ~Parameter
  * characters: printable ASCII + a sample of non-ASCII letters; no whitespace other than blank/tab,
    nothing str.splitlines() breaks on, no control characters
"""
from hypothesis import strategies as st

RESERVED = {"VERS", "WRAP", "DLM", "NULL", "STRT", "STOP", "STEP", "API", "UWI", "UNKNOWN"}

LETTERS = "ABCDEFGHIJKLMNOPQRSTUVWXYZabcdefghijklmnopqrstuvwxyz"
DIGITS = "0123456789"
NONASCII = "éÉüÖñçåØßαβΩλдЖяЫ深度米"
MNEM_PUNCT = "_-/()[]%&*+'\"<>=?!@$^{}|\\;,`"
MNEM_CHARS = LETTERS + DIGITS + MNEM_PUNCT + NONASCII
UNIT_CHARS = LETTERS + DIGITS + "/%-_*^'\"()[]#$" + NONASCII
TEXT_PUNCT = "_-/()[]%&*+'\"<>=?!@$^{}|\\;,`.#~"
TEXT_CHARS = LETTERS + DIGITS + TEXT_PUNCT + NONASCII

blank_run = st.sampled_from([" ", "  ", "\t", " \t", "\t ", "     ", " \t  "])
pad0 = st.one_of(st.just(""), blank_run)  # may be empty
pad1 = blank_run  # at least one blank/tab


def _ok_mnemonic(m):
    return (m.strip() == m and m != "" and m[0] not in "#~" and m.upper() not in RESERVED
            and not m.upper().startswith("UNKNOWN"))


@st.composite
def mnemonic(draw, allow_inner_blank=True, ascii_only=False, max_len=12):
    chars = (LETTERS + DIGITS + MNEM_PUNCT) if ascii_only else MNEM_CHARS
    kind = draw(st.integers(0, 9))
    if kind <= 4:  # typical
        m = draw(st.text(LETTERS + DIGITS, min_size=1, max_size=6))
    elif kind <= 7:
        m = draw(st.text(chars, min_size=1, max_size=max_len))
    elif kind == 8 and allow_inner_blank:
        a = draw(st.text(chars, min_size=1, max_size=5))
        b = draw(st.text(chars, min_size=1, max_size=5))
        m = a + draw(st.sampled_from([" ", "  ", " \t"])) + b
    else:
        m = draw(st.text(LETTERS, min_size=1, max_size=30))
    if not _ok_mnemonic(m):
        m = "M" + "".join(c for c in m if c not in " \t")[:8] + "x"
        if not _ok_mnemonic(m):
            m = "MNEMx"
    return m


def _ok_unit(u):
    if u == "":
        return True
    if any(c.isspace() for c in u) or ".." in u or u[0] == "." or u[-1] == ".":
        return False
    if all(c in DIGITS for c in u):
        return False
    if (u[0] == "[" and u[-1] == "]") or (u[0] == "(" and u[-1] == ")"):
        return False
    for i, c in enumerate(u):
        if c == ":":
            if i == 0 or i == len(u) - 1 or u[i - 1] not in LETTERS or u[i + 1] not in LETTERS:
                return False
    return True


@st.composite
def unit(draw, allow_empty=True, colon=True):
    kind = draw(st.integers(0, 9))
    if kind <= 1 and allow_empty:
        return ""
    if kind <= 5:
        u = draw(st.sampled_from(["M", "FT", "US/M", "K/M3", "OHMM", "G/CM3", "deg", "mm", "V/V", "0.1IN", "1/s",
                                  "m3/m3", "API", "degC", "%"]))
    elif kind == 6 and colon:
        u = draw(st.sampled_from(["hh:mm", "h:m", "a:b", "HH:MM", "m.s", "kg.m/s", "a.b.c", "x:y.z", "hh:mm:ss", "a:b:c", "d:h:m",
                                  "[0,1)", "(0,100]", "(m]", "[deg)", "m(RT)", "(a)b", "[x]y", "a[1]"]))
    else:
        u = draw(st.text(UNIT_CHARS + ".", min_size=1, max_size=8))
    if not _ok_unit(u):
        u = "".join(c for c in u if c not in ".:[]()" and not c.isspace())
        if not _ok_unit(u) or u == "":
            u = "un"
    return u


def _clean_text(t, colon_ok=False):
    t = t.strip(" \t")
    if not colon_ok:
        t = t.replace(":", ";")
    return t


NUMERIC_TEXTS = st.sampled_from(
    ["0", "1", "-1", "+7", "42", "007", "1.5", "-0.25", "1e3", "1.5E-3", "2,5", "-999.25", "9223372036854775807",
     "9223372036854775808", "1e400", "123456789012345678901234567890", "5.", ".5", "3.14159", "100.0", "0.0"])
TEXTY = st.sampled_from(
    ["", "ANY OIL COMPANY LTD.", "25-DEC-1988", "100091604920W300", "12-34-12-34W5M", "A9-16-49-20W3M", "nan", "inf",
     "N/A", "0x10", "1 000", "(RT)", "[x]", "\"quoted\"", "it's", "a.b", "~tilde", "#hash", "x . y", "EDAM", "NaN",
     "1-2", "3 m", "- 5", "1.2.3", "Sect 1,2 x", "9,625 / 7,0 liner", "1,2,3", "x1,5", "1,5x", "1,5 2,5"])


@st.composite
def field_text(draw, colon_ok=False, max_len=24, allow_empty=True):
    """Value / description text."""
    kind = draw(st.integers(0, 11))
    if kind == 0 and allow_empty:
        return ""
    if kind <= 3:
        t = draw(NUMERIC_TEXTS)
    elif kind <= 6:
        t = draw(TEXTY)
    elif kind <= 9:
        words = draw(st.lists(st.text(TEXT_CHARS, min_size=1, max_size=8), min_size=1, max_size=4))
        t = draw(st.sampled_from([" ", "  ", "\t"])).join(words)
    else:
        t = draw(st.text(TEXT_CHARS + " ", min_size=1, max_size=max_len))
    t = _clean_text(t, colon_ok)
    if t == "" and not allow_empty:
        t = "x"
    return t


@st.composite
def clock_time(draw, seconds=None):
    h = draw(st.integers(0, 23))
    m = draw(st.integers(0, 59))
    t = "%02d:%02d" % (h, m)
    if seconds is None:
        seconds = draw(st.booleans())
    if seconds:
        t += ":%02d" % draw(st.integers(0, 59))
    form = draw(st.integers(0, 3))
    date = draw(st.sampled_from(["23-JAN-2001", "2001/01/23", "01.02.2003"]))
    if form == 1:
        t = date + " " + t
    elif form == 2:
        t = t + " " + date
    return t


@st.composite
def item_line(draw, kind="W", v12=False, mnem=None, times=True, descr_colons=True, curve_safe=None, value=None,
              unit_s=None):
    """One conformant header item line for a section of the given kind (V W C P X)."""
    from .lastext import swapped

    m = mnem if mnem is not None else draw(mnemonic())
    u = draw(unit_s if unit_s is not None else unit())
    sw = swapped(kind, m, v12)
    # fields by disk position: left (before the colon) and right (after it)
    time_left = times and draw(st.integers(0, 9)) == 0
    if value is not None:
        left = draw(value)
        time_left = False
    elif time_left:
        left = draw(clock_time())
    else:
        left = draw(field_text())
    right_colon = kind == "P" and descr_colons and draw(st.integers(0, 5)) == 0
    right = draw(field_text(colon_ok=False))
    if right_colon and right:
        right = right + ": " + draw(field_text(allow_empty=False)) if draw(st.booleans()) else "a: b :c " + right
        right = right.strip()
    if kind == "C" or curve_safe:
        while ".." in left:  # a single pass would turn '...' into '..'
            left = left.replace("..", ".")
        if u.startswith("."):
            u = "u" + u
    if sw:
        v, d = right, left
    else:
        v, d = left, right
    p = [draw(pad0), draw(pad0), draw(pad0), draw(pad0), draw(pad0), draw(pad0)]
    if left != "" and p[2] == "":
        p[2] = draw(pad1)
    if kind == "P" and (time_left or ":" in right):
        # documented: the separating colon is set off by a blank on both sides
        if " " not in p[3][-1:]:
            p[3] = p[3] + " "
        if " " not in p[4][:1]:
            p[4] = " " + p[4]
    return {"t": "item", "m": m, "u": u, "v": v, "d": d, "p": p}


plain_pads = ["", "", " ", " ", " ", ""]


# ---------------------------------------------------------------------------------------
# data tokens

INT_TOK = st.integers(-99999, 99999).map(str)


@st.composite
def number_token(draw, spellings=("int", "fixed", "exp", "plus", "dotlead", "dottrail")):
    k = draw(st.sampled_from(spellings))
    if k == "int":
        return draw(INT_TOK)
    mant = draw(st.integers(0, 99999))
    dec = draw(st.integers(0, 5))
    s = "%.*f" % (dec, mant / 10.0 ** draw(st.integers(0, 4)))
    sign = draw(st.sampled_from(["", "", "-"]))
    if k == "fixed":
        return sign + s
    if k == "exp":
        esign = draw(st.sampled_from(["", "+", "-"]))
        return sign + s + draw(st.sampled_from("eE")) + esign + str(draw(st.integers(0, 30)))
    if k == "plus":
        return "+" + s
    if k == "dotlead":
        return sign + "." + str(draw(st.integers(0, 999)))
    return sign + str(draw(st.integers(0, 999))) + "."


SEP = st.sampled_from([" ", "  ", "\t", "   ", " \t", "\t\t"])


# ---------------------------------------------------------------------------------------
# scaffold variation: things a generator tends to keep fixed although the properties quantify over them

TITLE_SPELLINGS = {
    "V": ["~V", "~Version", "~VERSION INFORMATION", "~Version Information Section ---", "~v", "~version", "~vERSION info"],
    "W": ["~W", "~Well", "~WELL INFORMATION BLOCK", "~Well ------", "~w", "~well information", "~wELL"],
    "C": ["~C", "~Curves", "~CURVE INFORMATION", "~Curve Information ----", "~c", "~curve information", "~cURVES"],
    "P": ["~P", "~Params", "~PARAMETER INFORMATION", "~Parameter ---", "~p", "~parameter information block", "~pARAM"],
    "O": ["~O", "~Other", "~OTHER INFORMATION", "~Other ----", "~o", "~other information", "~oTHER"],
    "A": ["~A", "~ASCII", "~ASCII LOG DATA", "~A  DEPT  GR  NPHI", "~Ascii -----", "~a", "~ascii log data", "~aSCII"],
}


@st.composite
def scaffold(draw, p=3):
    """A description of presentation-neutral variations of a FileSpec's scaffold (applied by apply_scaffold):
    title spellings (either case), a WRAP NO item present or absent, an explicit DLM SPACE item."""
    if draw(st.integers(0, p)) != 0:
        return {}
    v = {"titles": {k: draw(st.sampled_from(TITLE_SPELLINGS[k])) for k in "VWCPOA" if draw(st.booleans())}}
    v["drop_wrap_no"] = draw(st.integers(0, 3)) == 0
    v["dlm_space"] = draw(st.integers(0, 3)) == 0
    return v


def apply_scaffold(spec, var):
    """Apply a scaffold() description in place. Only content-neutral changes: a WRAP item is removed only when it
    says NO (a file without WRAP item is read as not wrapped as far as the content is concerned)."""
    if not var:
        return spec
    from .lastext import item

    for sec in spec["sections"]:
        t = var.get("titles", {}).get(sec["kind"])
        if t:
            sec["title"] = t
        if sec["kind"] == "V":
            if var.get("drop_wrap_no"):
                sec["lines"] = [ln for ln in sec["lines"] if not (ln.get("t") == "item" and ln["m"].upper() == "WRAP" and ln["v"] == "NO")]
            if var.get("dlm_space") and not any(ln.get("t") == "item" and ln["m"].upper() == "DLM" for ln in sec["lines"]):
                sec["lines"].append(item("DLM", "", "SPACE", "delimiter"))
    return spec
