"""Operation histories on one header section: encoding, reference model, lasio driver.

Shared by C13 (naming invariant) and C15 (lookup consistency).

An operation is a JSON list:
    ["append", name]            section.append(item(name))            / LASFile.append_curve
    ["insert", pos, name]       section.insert(pos, item(name))       / LASFile.insert_curve
    ["del_ix", i]               del section[i]                        / LASFile.delete_curve(ix=i)
    ["del_key", key]            del section[key]   (first item whose session mnemonic matches key)
    ["set", key, name]          section[key] = item(name)  (SectionItems.set_item: replaces the first item
                                whose session mnemonic matches key; documented to append when key is absent)
    ["set_data"]                LASFile.set_data(las.data) without names (curves flavour): originals stay, session names are
                                those of a from-scratch numbering
    ["get_add", name]           section.get(name, add=True): appends a new item named name unless the key is present
    ["set_ix", i, name]         section[i] = item(name)   (integer key: the item at position i is replaced)
    ["rci", i, name]            LASFile.replace_curve_item(i, CurveItem(name))   (curves flavour only, i >= 0)

The reference (`vlib.models.NameModel`) is the documented naming rule; positions follow Python list semantics.
A replacement is modelled as deletion followed by insertion at the same position (so the group of the new
name is numbered, the group of the removed item keeps its now stale suffixes).
"""
import re

from .models import NameModel, same, useful

SUFFIXED = re.compile(r":\d+$")

# attribute names that getattr(section, k) cannot be asked to resolve as mnemonics: everything a list or a
# SectionItems instance already answers by normal attribute lookup
_SECTION_ATTRS = set(dir(list)) | {
    "mnemonic_transforms", "mnemonic_compare", "keys", "values", "items", "iterkeys", "itervalues", "iteritems",
    "get", "set_item", "set_item_value", "append", "insert", "assign_duplicate_suffixes", "dictview", "json",
    "index", "count", "pop", "remove", "reverse", "sort", "extend", "copy", "clear",
}


def attr_key(k):
    """True when getattr(section, k) is a mnemonic lookup (k is an identifier that shadows nothing)."""
    if not isinstance(k, str) or not k.isidentifier() or k in _SECTION_ATTRS or k.startswith("__"):
        return False
    from lasio import SectionItems

    return not hasattr(SectionItems, k)


def norm(k, ci):
    return k.upper() if ci else k


# ------------------------------------------------------------------------------------------
# model side


def model_find(m, key):
    """Position of the first item whose session mnemonic matches key, or None."""
    for i, it in enumerate(m.items):
        if same(it[1], key, m.ci):
            return i
    return None


def model_apply(m, op):
    """Apply op to a NameModel.  Returns (removed_original_or_None, inserted_name_or_None).
    Raises LookupError when the precondition of the operation does not hold."""
    k = op[0]
    n = len(m.items)
    if k == "append":
        m.append(op[1])
        return None, op[1]
    if k == "insert":
        m.insert(op[1], op[2])
        return None, op[2]
    if k == "del_ix":
        if not -n <= op[1] < n:
            raise LookupError(op)
        old = m.items[op[1]][0]
        m.delete(op[1])
        return old, None
    if k == "del_key":
        i = model_find(m, op[1])
        if i is None:
            raise LookupError(op)
        old = m.items[i][0]
        m.delete(i)
        return old, None
    if k == "set":
        i = model_find(m, op[1])
        if i is None:
            m.append(op[2])
            return None, op[2]
        old = m.items[i][0]
        m.delete(i)
        m.insert(i, op[2])
        return old, op[2]
    if k == "set_data":
        if n == 0:
            raise LookupError(op)
        fresh = NameModel(m.ci)
        for orig in m.originals():
            fresh.append(orig)
        m.items = fresh.items
        return None, None
    if k == "get_add":
        if model_find(m, op[1]) is not None:
            return None, None
        m.append(op[1])
        return None, op[1]
    if k in ("rci", "set_ix"):
        if not 0 <= op[1] < n:
            raise LookupError(op)
        old = m.items[op[1]][0]
        m.delete(op[1])
        m.insert(op[1], op[2])
        return old, op[2]
    if k == "move":
        # the item OBJECT at position i is taken out and inserted again at pos: it arrives with the session name it
        # carried; the documented rule renumbers its name group when the group has more than one member
        if not 0 <= op[1] < n or not 0 <= op[2] <= n - 1:
            raise LookupError(op)
        pair = m.items[op[1]]
        m.delete(op[1])
        m.items.insert(op[2], pair)
        m.renumber(useful(pair[0]))
        return None, None
    raise ValueError("unknown operation %r" % (op,))


def list_apply(objs, op, new, find):
    """The same operation on a plain Python list of item objects (`find(key)` gives the position)."""
    k = op[0]
    if k == "append":
        objs.append(new)
    elif k == "insert":
        objs.insert(op[1], new)
    elif k == "del_ix":
        del objs[op[1]]
    elif k == "del_key":
        del objs[find(op[1])]
    elif k == "set":
        i = find(op[1])
        if i is None:
            objs.append(new)
        else:
            objs[i] = new
    elif k in ("rci", "set_ix"):
        objs[op[1]] = new
    elif k == "move":
        objs.insert(op[2], objs.pop(op[1]))


def distinct(seq):
    out = []
    for x in seq:
        if x not in out:
            out.append(x)
    return out


def applicable_ops(keys, names, rci=True):
    """Every operation of the alphabet whose precondition holds in a section whose session names are `keys`
    (in order).  Positions for insert are {0, middle, end}."""
    n = len(keys)
    for nm in names:
        yield ["append", nm]
    for nm in names:
        yield ["get_add", nm]
    for pos in sorted({0, n // 2, n}):
        for nm in names:
            yield ["insert", pos, nm]
    for i in range(n):
        yield ["del_ix", i]
    dk = distinct(keys)
    for key in dk:
        yield ["del_key", key]
    for key in dk:
        for nm in names:
            yield ["set", key, nm]
    for i in range(n):
        for nm in names:
            yield ["rci" if rci else "set_ix", i, nm]


def histories(names, maxlen, ci, rci=True):
    """All operation sequences of length 1..maxlen, enumerated against the model (depth first, fixed order)."""
    def rec(m, prefix):
        for op in applicable_ops(m.sessions(), names, rci):
            seq = prefix + [op]
            yield seq
            if len(seq) < maxlen:
                m2 = m.copy()
                model_apply(m2, op)
                for s in rec(m2, seq):
                    yield s

    return rec(NameModel(ci), [])


def history_features(ops, ci=False):
    """Which of the non-trivial patterns an operation list contains (found by running the model)."""
    m = NameModel(ci)
    removed = []
    inserted = []
    feats = set()
    for op in ops:
        try:
            old, new = model_apply(m, op)
        except LookupError:
            break
        if new is not None:
            if new in removed:
                feats.add("delete-then-reinsert-same-name")
            if SUFFIXED.search(new):
                feats.add("name-ending-in-:digits")
            for x in inserted:
                if x != new and x.upper() == new.upper():
                    feats.add("case-variant-pair")
            inserted.append(new)
        if old is not None:
            removed.append(old)
    return feats


# ------------------------------------------------------------------------------------------
# lasio side


_OBSERVED = object()
_LAS = None
_EMPTY_PARAMS_TEXT = ("~Version\nVERS. 2.0 : v\nWRAP. NO : w\n~Well\nSTRT.M 1 : s\nSTOP.M 2 : s\nSTEP.M 1 : s\nNULL. -999.25 : n\n"
                      "~Curves\nDEPT.M : d\n~Parameter\n~ASCII\n1\n2\n")


class Driver(object):
    """Runs operations on a lasio section.  flavour 'header': a bare SectionItems of HeaderItems;
    flavour 'curves': the ~Curves section of a LASFile built with LASFile(), edited through LASFile methods
    where one exists; flavour 'curveitems': a bare SectionItems of CurveItems."""

    def __init__(self, flavour, ci, fresh_las=False):
        import lasio

        self.flavour = flavour
        self.ci = ci
        self.las = None
        self.serial = 0
        if flavour == "curves":
            # one LASFile() per process; every history starts from a fresh, empty ~Curves section installed
            # the way the reader installs a parsed section
            global _LAS
            if _LAS is None or fresh_las:
                _LAS = lasio.LASFile()
            self.las = _LAS
            self.las.sections["Curves"] = lasio.SectionItems()
            self.section = self.las.curves
        elif flavour == "file-params":
            # the (empty) ~Parameter section of a file as the reader hands it over: whether it ignores case is
            # the reader's decision (mnemonic_case), not this driver's
            las = lasio.read(_EMPTY_PARAMS_TEXT, mnemonic_case="upper" if ci else "preserve")
            self.section = las.params
            self.flavour = "header"
        else:
            self.section = lasio.SectionItems()
        if ci and flavour != "file-params":
            # exactly what the reader does for mnemonic_case != 'preserve'
            self.section.mnemonic_transforms = True
        self.objs = []  # expected content (identity), maintained with plain list semantics

    def new_item(self, name):
        import lasio
        import numpy as np

        self.serial += 1
        if self.flavour == "header":
            return lasio.HeaderItem(name, "", "v%d" % self.serial, "d%d" % self.serial)
        return lasio.CurveItem(name, "", "", "d%d" % self.serial, data=np.array([float(self.serial)]))

    def items(self):
        return list(list.__iter__(self.section))

    def find(self, key):
        for i, it in enumerate(self.objs):
            if same(it.mnemonic, key, self.ci):
                return i
        return None

    def apply(self, op, pos=_OBSERVED):
        """Run op on lasio (exceptions propagate) and on the expected object list.  `pos` is the position a
        key of del_key/set refers to (default: first item whose current session mnemonic matches)."""
        k = op[0]
        s = self.section
        las = self.las
        new = self.new_item(op[-1]) if k in ("append", "insert", "set", "rci", "set_ix") else None
        # position for the object list is determined BEFORE the call, from the names the items then carry
        if pos is _OBSERVED:
            pos = self.find(op[1]) if k in ("del_key", "set") else None
        if k == "append":
            if las is not None:
                las.append_curve_item(new)
            else:
                s.append(new)
        elif k == "insert":
            if las is not None:
                las.insert_curve_item(op[1], new)
            else:
                s.insert(op[1], new)
        elif k == "del_ix":
            if las is not None:
                las.delete_curve(ix=op[1])
            else:
                del s[op[1]]
        elif k == "del_key":
            del s[op[1]]
        elif k == "set":
            s[op[1]] = new
        elif k == "rci":
            las.replace_curve_item(op[1], new)
        elif k == "set_ix":
            s[op[1]] = new
        elif k == "set_data":
            if las is None:
                raise LookupError(op)
            las.set_data(las.data)
            return
        elif k == "get_add":
            present = self.find(op[1]) is not None
            got = s.get(op[1], add=True)
            if not present:
                self.objs.append(got)
            return
        elif k == "move":
            it = list.__getitem__(s, op[1])
            if las is not None:
                las.delete_curve(ix=op[1])
                las.insert_curve_item(op[2], it)
            else:
                del s[op[1]]
                s.insert(op[2], it)
        else:
            raise ValueError("unknown operation %r" % (op,))
        list_apply(self.objs, op, new, lambda key: pos)
        return new


def build(flavour, ci, ops):
    """Fresh driver with ops applied (exceptions propagate)."""
    d = Driver(flavour, ci)
    for op in ops:
        d.apply(op)
    return d


def render(section):
    return ["%s<-%r" % (it.mnemonic, it.original_mnemonic) for it in list.__iter__(section)]
