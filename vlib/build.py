"""Build a LASFile from a JSON-able description, through lasio's public API only.

desc = {
  "well":   [[mnemonic, unit, valspec, descr], ...]   extra ~W items appended after STRT/STOP/STEP/NULL
  "strt_unit": "M", "null": valspec,
  "version": [[m,u,valspec,d], ...]                     extra ~V items appended after VERS/WRAP/DLM
  "vers": 2.0|1.2, "wrap": "NO"|"YES",
  "curves": [[mnemonic, unit, value, descr, [cell, ...]], ...]   cells: text (floats via fenc) ; kind by "ckind"
  "params": [[m,u,valspec,d], ...],
  "other": "text",
  "drop_defaults": bool   (remove the default COMP..API items of ~W)
}
valspec: ["s", text] | ["i", int] | ["f", text-of-float] | ["ni", int] (np.int64) | ["nf", text] (np.float64) | ["none"]
"""
import numpy as np


def val(spec):
    k = spec[0]
    if k == "s":
        return spec[1]
    if k == "i":
        return int(spec[1])
    if k == "f":
        return float(spec[1])
    if k == "ni":
        return np.int64(spec[1])
    if k == "nf":
        return np.float64(spec[1])
    if k == "none":
        return None
    raise ValueError(spec)


def build_las(desc):
    import lasio
    from lasio import HeaderItem

    las = lasio.LASFile()
    if desc.get("drop_defaults", True):
        for m in ("COMP", "WELL", "FLD", "LOC", "PROV", "CNTY", "STAT", "CTRY", "SRVC", "DATE", "UWI", "API"):
            del las.well[m]
    if "vers" in desc:
        las.version["VERS"].value = desc["vers"]
    if "wrap" in desc:
        las.version["WRAP"].value = desc["wrap"]
    if desc.get("strt_unit") is not None:
        for m in ("STRT", "STOP", "STEP"):
            las.well[m].unit = desc["strt_unit"]
    if "null" in desc:
        las.well["NULL"].value = val(desc["null"])
    for k, (m, u, v, d) in enumerate(desc.get("version", [])):
        if desc.get("version_front"):
            las.version.insert(k, HeaderItem(m, u, val(v), d))  # items in FRONT of VERS/WRAP/DLM: the order is content
        else:
            las.version.append(HeaderItem(m, u, val(v), d))
    for m, u, v, d in desc.get("well", []):
        las.well.append(HeaderItem(m, u, val(v), d))
    for m, u, v, d in desc.get("params", []):
        las.params.append(HeaderItem(m, u, val(v), d))
    for cv in desc.get("curves", []):
        m, u, v, d, cells = cv[:5]
        kind = cv[5] if len(cv) > 5 else "f"
        if kind == "f":
            data = np.array([float(c) for c in cells], dtype=float)
        else:
            data = np.array(list(cells), dtype=str)
        las.append_curve(m, data, unit=u, descr=d, value=v)
    if desc.get("other") is not None:
        las.other = desc["other"]
    return las


def write_text(las, **kw):
    import io

    if isinstance(kw.get("column_fmt"), dict) and any(isinstance(k, str) for k in kw["column_fmt"]):
        # cases replayed from JSON carry string keys (a dict with int keys is handed over AS IT IS: whether write() leaves the
        # caller's dict alone is part of what some checks observe)
        kw["column_fmt"] = {int(k): v for k, v in kw["column_fmt"].items()}
    buf = io.StringIO()
    las.write(buf, **kw)
    return buf.getvalue()
